#!/usr/bin/env python3
"""print the markdown table of /verif/seeded/*/meta.json for DESIGN.md section 11"""
import json, os, glob, re
HERE = os.path.dirname(os.path.dirname(os.path.abspath(__file__)))
rows = []
for m in sorted(glob.glob(os.path.join(HERE, 'seeded', '*', 'meta.json'))):
    d = json.load(open(m))
    notes = d.get('needs_to_manifest', '')
    title = notes.strip().split('\n')[0].lstrip('# ').strip()
    obs = []
    for v in d.get('check_violations', []):
        mm = re.search(r'replay=\S*/%s-(\S+?)\.json( no-failing-input-found)?' % d['property'], v)
        if mm:
            obs.append(mm.group(1).replace('_', '/') + (' (nfi)' if mm.group(2) else ''))
    rows.append((d['seed'], d['property'], title[:90], 'yes' if d.get('detected') else 'NO',
                 '; '.join(obs[:3]), d.get('check_seconds')))
print('| seed | property | change | caught | first failing obligations (nfi = no-failing-input-found) | s |')
print('|---|---|---|---|---|---|')
for r in rows:
    print('| %s | %s | %s | %s | %s | %s |' % r)
