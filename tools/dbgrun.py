"""debug helper: python3-vt tools/dbgrun.py check Cxx --repo DIR ; kill -USR1 <pid> dumps the stack"""
import faulthandler, signal, sys, os
faulthandler.register(signal.SIGUSR1, all_threads=False)
sys.path.insert(0, os.path.dirname(os.path.dirname(os.path.abspath(__file__))))
sys.argv = ['pyvc'] + sys.argv[1:]
import runpy
runpy.run_module('pyvc', run_name='__main__')
