#!/bin/bash
# runall.sh [tier] [parallel]: run every registered check on /repo, print one line per property
tier=${1:-quick}; par=${2:-4}
out=/var/tmp/pyvc-runall; rm -rf $out; mkdir -p $out
cd /verif
seq -f "C%02g" 1 20 | xargs -P $par -I{} sh -c "s=\$(date +%s); python3-vt -m pyvc check {} --tier $tier > $out/{}.out 2>&1; echo \"{} exit \$? \$(( \$(date +%s) - s ))s \$(grep -c '^VIOLATION' $out/{}.out) violations \$(grep -c '^KNOWN-FINDING' $out/{}.out) kf\""
