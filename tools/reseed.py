#!/usr/bin/env python3
"""Regression over the kept seeded changes: re-run the registered quick check
of each /verif/seeded/<id> (patch applied to a scratch copy of /repo, checks
run from the committed snapshot of /verif) and refresh the check_* fields of
its meta.json.  usage: reseed.py <id> [...]   (prints one line per seed)"""
import json, os, shutil, subprocess, sys, tempfile, time

HERE = os.path.dirname(os.path.dirname(os.path.abspath(__file__)))


def sh(cmd, **kw):
    return subprocess.run(cmd, shell=isinstance(cmd, str), capture_output=True,
                          text=True, **kw)


def one(sid):
    d = os.path.join(HERE, 'seeded', sid)
    meta = json.load(open(os.path.join(d, 'meta.json')))
    prop = meta['property']
    scratch = tempfile.mkdtemp(prefix='pyvc-reseed-', dir='/var/tmp')
    try:
        mut = os.path.join(scratch, 'mut')
        shutil.copytree('/repo', mut, ignore=shutil.ignore_patterns(
            '.git', '__pycache__', '*.pyc', '.pytest_cache'))
        r = sh(['patch', '-p1', '-s', '-i', os.path.join(d, 'patch.diff')], cwd=mut)
        if r.returncode != 0:
            print(sid, prop, 'PATCH DOES NOT APPLY ANY MORE')
            return
        snap = os.path.join(scratch, 'verif')
        os.makedirs(snap)
        sh('git -C %s archive HEAD | tar -x -C %s' % (HERE, snap))
        t0 = time.time()
        c = sh(['python3-vt', '-m', 'pyvc', 'check', prop, '--repo', mut], cwd=snap,
               env=dict(os.environ, PYVC_EVIDENCE_DIR=scratch), timeout=3600)
        meta['check_exit'] = c.returncode
        meta['check_seconds'] = round(time.time() - t0, 1)
        meta['check_violations'] = [l.replace(scratch, '<scratch>') for l in
                                    c.stdout.split('\n') if l.startswith('VIOLATION')][:6]
        meta['check_last_line'] = c.stdout.strip().split('\n')[-1][:300]
        meta['detected'] = c.returncode == 1
        meta['check_commit'] = sh('git -C %s rev-parse --short HEAD' % HERE).stdout.strip()
        json.dump(meta, open(os.path.join(d, 'meta.json'), 'w'), indent=1)
        print(sid, prop, 'detected=%s' % meta['detected'], 'exit', c.returncode,
              meta['check_violations'][:1])
    finally:
        shutil.rmtree(scratch, ignore_errors=True)


for s in sys.argv[1:]:
    one(s)
