#!/usr/bin/env python3
"""Mutation catalogue (DESIGN.md 2.8): each entry is applied to a scratch
copy of /repo (never to /repo itself), the named check must then report a
violation (exit 1).  usage: mutants.py [id ...]   (no args: all)"""
import json, os, shutil, subprocess, sys, tempfile, time

HERE = os.path.dirname(os.path.dirname(os.path.abspath(__file__)))
REPO = os.environ.get('PYVC_REPO', '/repo')

CATALOGUE = [
 # id, property, file, old, new
 ('older-le', 'C10', 'trashcli/empty/older_than.py',
  'return deletion_date < limit_date', 'return deletion_date <= limit_date'),
 ('remover-isdir', 'C11', 'trashcli/fs.py',
  '''        try:
            os.remove(path)
        except OSError:
            shutil.rmtree(path)''',
  '''        if os.path.isdir(path):
            shutil.rmtree(path)
        else:
            os.remove(path)'''),
 ('backup-copy-one-dirname', 'C11', 'trashcli/lib/path_of_backup_copy.py',
  'trash_dir = os.path.dirname(os.path.dirname(trashinfo_path))',
  'trash_dir = os.path.dirname(trashinfo_path)'),
 ('rm-lowercase', 'C12', 'trashcli/rm/filter.py',
  'return fnmatch.fnmatchcase(subject, self.pattern)',
  'return fnmatch.fnmatch(subject.lower(), self.pattern)'),
 ('rm-match-full-path', 'C12', 'trashcli/rm/filter.py',
  "subject = original_location if self.pattern[0] == '/' else basename",
  "subject = original_location"),
 ('dry-run-removes', 'C14', 'trashcli/empty/emptier.py',
  '''            if dry_run:
                self.console.print_dry_run(path)
            else:''',
  '''            if dry_run:
                self.console.print_dry_run(path)
            if True:'''),
 ('reply-contains-y', 'C14', 'trashcli/empty/parse_reply.py',
  "return reply[0:1].lower() == 'y'", "return 'y' in reply.lower()"),
 ('guard-ignores-reply', 'C14', 'trashcli/empty/guard.py',
  "list_result = trash_dirs_list if ok_to_empty else []\n        return UserIntention(ok_to_empty=ok_to_empty,",
  "list_result = trash_dirs_list if ok_to_empty else []\n        return UserIntention(ok_to_empty=True,"),
 ('rm-swap-deletions', 'C15', 'trashcli/rm/cleanable_trashcan.py',
  '''        self._file_remover.remove_file_if_exists(backup_copy)
        self._file_remover.remove_file2(trash_info_path)''',
  '''        self._file_remover.remove_file2(trash_info_path)
        self._file_remover.remove_file_if_exists(backup_copy)'''),
 ('empty-info-before-payload', 'C15', 'trashcli/empty/emptier.py',
  '''                    yield (path_of_backup_copy(trash_info_path))
                    yield trash_info_path''',
  '''                    yield trash_info_path
                    yield (path_of_backup_copy(trash_info_path))'''),
 ('restore-exists', 'C06', 'trashcli/restore/file_system.py',
  'return os.path.lexists(path)', 'return os.path.exists(path)'),
 ('restore-overwrite-inverted', 'C06', 'trashcli/restore/restorer.py',
  'if not overwrite and self.read_fs.path_exists(trashed_file.original_location):',
  'if overwrite and self.read_fs.path_exists(trashed_file.original_location):'),
 ('range-exclusive', 'C13', 'trashcli/restore/range.py',
  'return iter(range(self.start, self.stop + 1))',
  'return iter(range(self.start, self.stop))'),
 ('scope-no-separator', 'C13', 'trashcli/restore/trashed_file.py',
  'if self.original_location.startswith(path + os.path.sep):',
  'if self.original_location.startswith(path):'),
 ('restore-ignores-die', 'C06', 'trashcli/restore/restore_asking_the_user.py',
  """        except IOError as e:
            return Left(Die(e))""",
  """        except IOError as e:
            return Right(None)"""),
 ('index-off-by-one', 'C13', 'trashcli/restore/restore_asking_the_user.py',
  'file_to_restore = [input_read.trashed_files[index] for index in',
  'file_to_restore = [input_read.trashed_files[index - 1] for index in'),
 ('c03-safe-percent', 'C03', 'trashcli/put/format_trash_info.py',
  "return url_quote(original_location, '/')", "return url_quote(original_location, '/%')"),
 ('c03-unquote-plus', 'C03', 'trashcli/parse_trashinfo/parse_path.py',
  "from six.moves.urllib.parse import unquote", "from six.moves.urllib.parse import unquote_plus as unquote"),
 ('c03-date-format', 'C03', 'trashcli/put/format_trash_info.py',
  'return deletion_date.strftime("%Y-%m-%dT%H:%M:%S")', 'return deletion_date.strftime("%Y-%m-%d %H:%M:%S")'),
 ('c01-no-info-removal', 'C01', 'trashcli/put/janitor_tools/put_trash_dir.py',
  """            try:
                self.fs.remove_file(paths.trashinfo_path)
            except (IOError, OSError):
                pass  # the failure to trash is reported anyway
""", ""),
 ('c04-drop-excl', 'C04', 'trashcli/fs.py',
  "os.O_WRONLY | os.O_CREAT | os.O_EXCL", "os.O_WRONLY | os.O_CREAT"),
 ('c04-drop-probe', 'C04', 'trashcli/put/janitor_tools/info_file_persister.py',
  """            if os.path.lexists(path_of_backup_copy(trashinfo_path)):
                index += 1
                continue
""", ""),
 ('c04-mkdir-check-then-create', 'C04', 'trashcli/put/dir_maker.py',
  """        try:
            self.fs.makedirs(path, mode)
        except OSError:
            if not self.fs.isdir(path):
                raise""",
  """        if not self.fs.isdir(path):
            self.fs.makedirs(path, mode)"""),
 ('c07-drop-realpath', 'C07', 'trashcli/put/trash_dir_volume_reader.py',
  """        return self.fs.volume_of(
            self.fs.realpath(norm_trash_dir_path))""",
  """        return self.fs.volume_of(norm_trash_dir_path)"""),
 ('c07-mode-755', 'C07', 'trashcli/put/janitor_tools/trash_dir_creator.py',
  "self.dir_maker.mkdir_p(candidate.trash_dir_path, 0o700)", "self.dir_maker.mkdir_p(candidate.trash_dir_path, 0o755)"),
 ('c18-exists', 'C18', 'trashcli/put/trasher.py',
  "if not self.fs.lexists(path):", "if not self.fs.exists(path):"),
 ('c18-no-normpath', 'C18', 'trashcli/put/janitor_tools/put_trash_dir.py',
  "fs.move(os.path.normpath(src), dest)", "fs.move(src, dest)"),
 ('c16-break-on-failure', 'C16', 'trashcli/put/context.py',
  """                failed_paths.append(path)
""", """                failed_paths.append(path)
                break
"""),
 ('c16-exit-code', 'C16', 'trashcli/put/reporting/trash_put_reporter.py',
  "        if not result.any_failure():", "        if len(result.failed_paths) < 2:"),
 ('c16-narrow-except', 'C16', 'trashcli/put/janitor_tools/info_creator.py',
  "except (IOError, OSError, UnicodeError) as error:", "except (IOError, OSError) as error:"),
 ('c17-unbounded-retry', 'C17', 'trashcli/put/janitor_tools/info_file_persister.py',
  "while index < self.max_attempts:", "while True:"),
 ('c17-move-fallback-any-error', 'C17', 'trashcli/put/fs/real_fs.py',
  """            if e.errno != errno.EXDEV:
                raise
""", ""),
 ('c08-put-skip-sticky', 'C08', 'trashcli/put/janitor_tools/security_check.py',
  """            if not self.fs.has_sticky_bit(parent):
                return Left(TrashDirIsNotSecureBecauseNotSticky())
""", ""),
 ('c08-scanner-no-symlink-check', 'C08', 'trashcli/trash_dirs_scanner.py',
  """        if self.reader.is_symlink(parent_trashdir):
            return top_trash_dir_invalid_because_parent_is_symlink
        else:
            return top_trash_dir_valid""", """        return top_trash_dir_valid"""),
 ('c19-list-except', 'C19', 'trashcli/list/list_trash_action.py',
  "except (IOError, OSError, UnicodeDecodeError) as e:", "except IOError as e:"),
 ('c20-list-no-join', 'C20', 'trashcli/list/list_trash_action.py',
  "original_location = os.path.join(volume, relative_location)", "original_location = relative_location"),
 ('c15-restore-info-first', 'C15', 'trashcli/restore/restorer.py',
  """        self.write_fs.move(trashed_file.original_file, trashed_file.original_location)
        self.write_fs.remove_file(trashed_file.info_file)""",
  """        self.write_fs.remove_file(trashed_file.info_file)
        self.write_fs.move(trashed_file.original_file, trashed_file.original_location)"""),
 ('c05-move-before-info', 'C05', 'trashcli/put/janitor.py',
  """        try:
            trashed_file = self.executor.execute(persisting_job, log_data)
        except (IOError, OSError) as error:
            return make_error(Left(UnableToCreateTrashInfo(error)))
        trashed = self.trash_dir.try_trash(trashee.path, trashed_file)
        if isinstance(trashed, Left):
            return make_error(trashed)
""", """        guess = TrashedFile(trashinfo_data.value().info_dir_path + '/' +
                            trashinfo_data.value().basename + '.trashinfo')
        trashed = self.trash_dir.try_trash(trashee.path, guess)
        if isinstance(trashed, Left):
            return make_error(trashed)
        try:
            trashed_file = self.executor.execute(persisting_job, log_data)
        except (IOError, OSError) as error:
            return make_error(Left(UnableToCreateTrashInfo(error)))
"""),
]


def run(ids):
    results = []
    for mid, prop, rel, old, new in CATALOGUE:
        if ids and mid not in ids:
            continue
        scratch = tempfile.mkdtemp(prefix='pyvc-mut-', dir='/var/tmp')
        try:
            dst = os.path.join(scratch, 'repo')
            shutil.copytree(REPO, dst, ignore=shutil.ignore_patterns(
                '.git', '__pycache__', '*.pyc', '.pytest_cache'))
            p = os.path.join(dst, rel)
            s = open(p).read()
            if old not in s:
                results.append((mid, prop, 'PATTERN-NOT-FOUND', 0))
                continue
            open(p, 'w').write(s.replace(old, new, 1))
            t0 = time.time()
            env = dict(os.environ, PYVC_EVIDENCE_DIR=scratch)
            r = subprocess.run(['python3-vt', '-m', 'pyvc', 'check', prop,
                                '--repo', dst], cwd=HERE, capture_output=True,
                               text=True, env=env)
            viol = [l for l in r.stdout.split('\n') if l.startswith('VIOLATION')]
            results.append((mid, prop, 'exit %d' % r.returncode,
                            round(time.time() - t0, 1), viol[:2],
                            r.stdout.strip().split('\n')[-1][:200]))
        finally:
            shutil.rmtree(scratch, ignore_errors=True)
    for r in results:
        print(r)
    bad = [r for r in results if r[2] != 'exit 1']
    return 1 if bad else 0


if __name__ == '__main__':
    sys.exit(run(sys.argv[1:]))
