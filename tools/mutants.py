#!/usr/bin/env python3
"""Mutation catalogue (DESIGN.md 2.8): each entry is applied to a scratch
copy of /repo (never to /repo itself), the named check must then report a
violation (exit 1).  usage: mutants.py [id ...]   (no args: all)"""
import json, os, shutil, subprocess, sys, tempfile, time

HERE = os.path.dirname(os.path.dirname(os.path.abspath(__file__)))
REPO = os.environ.get('PYVC_REPO', '/repo')

CATALOGUE = [
 # id, property, file, old, new
 ('older-le', 'C10', 'trashcli/empty/older_than.py',
  'return deletion_date < limit_date', 'return deletion_date <= limit_date'),
 ('remover-isdir', 'C11', 'trashcli/fs.py',
  '''        try:
            os.remove(path)
        except OSError:
            shutil.rmtree(path)''',
  '''        if os.path.isdir(path):
            shutil.rmtree(path)
        else:
            os.remove(path)'''),
 ('backup-copy-one-dirname', 'C11', 'trashcli/lib/path_of_backup_copy.py',
  'trash_dir = os.path.dirname(os.path.dirname(trashinfo_path))',
  'trash_dir = os.path.dirname(trashinfo_path)'),
 ('rm-lowercase', 'C12', 'trashcli/rm/filter.py',
  'return fnmatch.fnmatchcase(subject, self.pattern)',
  'return fnmatch.fnmatch(subject.lower(), self.pattern)'),
 ('rm-match-full-path', 'C12', 'trashcli/rm/filter.py',
  "subject = original_location if self.pattern[0] == '/' else basename",
  "subject = original_location"),
 ('dry-run-removes', 'C14', 'trashcli/empty/emptier.py',
  '''            if dry_run:
                self.console.print_dry_run(path)
            else:''',
  '''            if dry_run:
                self.console.print_dry_run(path)
            if True:'''),
 ('reply-contains-y', 'C14', 'trashcli/empty/parse_reply.py',
  "return reply[0:1].lower() == 'y'", "return 'y' in reply.lower()"),
 ('guard-ignores-reply', 'C14', 'trashcli/empty/guard.py',
  "list_result = trash_dirs_list if ok_to_empty else []\n        return UserIntention(ok_to_empty=ok_to_empty,",
  "list_result = trash_dirs_list if ok_to_empty else []\n        return UserIntention(ok_to_empty=True,"),
 ('rm-swap-deletions', 'C15', 'trashcli/rm/cleanable_trashcan.py',
  '''        self._file_remover.remove_file_if_exists(backup_copy)
        self._file_remover.remove_file2(trash_info_path)''',
  '''        self._file_remover.remove_file2(trash_info_path)
        self._file_remover.remove_file_if_exists(backup_copy)'''),
 ('empty-info-before-payload', 'C15', 'trashcli/empty/emptier.py',
  '''                    yield (path_of_backup_copy(trash_info_path))
                    yield trash_info_path''',
  '''                    yield trash_info_path
                    yield (path_of_backup_copy(trash_info_path))'''),
 ('restore-exists', 'C06', 'trashcli/restore/file_system.py',
  'return os.path.lexists(path)', 'return os.path.exists(path)'),
 ('restore-overwrite-inverted', 'C06', 'trashcli/restore/restorer.py',
  'if not overwrite and self.read_fs.path_exists(trashed_file.original_location):',
  'if overwrite and self.read_fs.path_exists(trashed_file.original_location):'),
 ('range-exclusive', 'C13', 'trashcli/restore/range.py',
  'return iter(range(self.start, self.stop + 1))',
  'return iter(range(self.start, self.stop))'),
 ('scope-no-separator', 'C13', 'trashcli/restore/trashed_file.py',
  'if self.original_location.startswith(path + os.path.sep):',
  'if self.original_location.startswith(path):'),
 ('restore-ignores-die', 'C06', 'trashcli/restore/restore_asking_the_user.py',
  """        except IOError as e:
            return Left(Die(e))""",
  """        except IOError as e:
            return Right(None)"""),
 ('index-off-by-one', 'C13', 'trashcli/restore/restore_asking_the_user.py',
  'file_to_restore = [input_read.trashed_files[index] for index in',
  'file_to_restore = [input_read.trashed_files[index - 1] for index in'),
]


def run(ids):
    results = []
    for mid, prop, rel, old, new in CATALOGUE:
        if ids and mid not in ids:
            continue
        scratch = tempfile.mkdtemp(prefix='pyvc-mut-', dir='/var/tmp')
        try:
            dst = os.path.join(scratch, 'repo')
            shutil.copytree(REPO, dst, ignore=shutil.ignore_patterns(
                '.git', '__pycache__', '*.pyc', '.pytest_cache'))
            p = os.path.join(dst, rel)
            s = open(p).read()
            if old not in s:
                results.append((mid, prop, 'PATTERN-NOT-FOUND', 0))
                continue
            open(p, 'w').write(s.replace(old, new, 1))
            t0 = time.time()
            env = dict(os.environ, PYVC_EVIDENCE_DIR=scratch)
            r = subprocess.run(['python3-vt', '-m', 'pyvc', 'check', prop,
                                '--repo', dst], cwd=HERE, capture_output=True,
                               text=True, env=env)
            viol = [l for l in r.stdout.split('\n') if l.startswith('VIOLATION')]
            results.append((mid, prop, 'exit %d' % r.returncode,
                            round(time.time() - t0, 1), viol[:2],
                            r.stdout.strip().split('\n')[-1][:200]))
        finally:
            shutil.rmtree(scratch, ignore_errors=True)
    for r in results:
        print(r)
    bad = [r for r in results if r[2] != 'exit 1']
    return 1 if bad else 0


if __name__ == '__main__':
    sys.exit(run(sys.argv[1:]))
