#!/usr/bin/env python3
"""Evaluate seeded changes written by independent sub-agents.

usage: seeded.py <seed-dir> <property> [<seed-id>]
  seed-dir contains patch.diff, demo.py|demo.sh, notes.md.
Steps (all on a scratch copy of /repo under /var/tmp, never in /repo):
  1. the patch applies; 2. the test suite passes with it (only the 5 known
  root failures); 3. the demo exits 0 without and non-zero with the patch;
  4. the registered quick check of the property reports a violation.
Writes /verif/seeded/<seed-id>/{patch.diff,demo.*,notes.md,meta.json}."""
import json, os, shutil, subprocess, sys, tempfile, time

HERE = os.path.dirname(os.path.dirname(os.path.abspath(__file__)))
REPO = '/repo'
KNOWN_FAIL = {'test_trash_empty_will_skip_unreadable_dir',
              'test_should_warn_about_unreadable_trashinfo',
              'TestRealFsPermissions::test',
              'test_and_can_not_be_removed', 'Test_make_unreadable_file::test'}


def sh(cmd, **kw):
    return subprocess.run(cmd, shell=isinstance(cmd, str), capture_output=True,
                          text=True, **kw)


def main():
    seed_dir, prop = sys.argv[1], sys.argv[2]
    sid = sys.argv[3] if len(sys.argv) > 3 else os.path.basename(seed_dir.rstrip('/'))
    out_dir = os.path.join(HERE, 'seeded', sid)
    meta = {'seed': sid, 'property': prop, 'source': 'independent sub-agent, '
            'given only the property text and a scratch worktree'}
    scratch = tempfile.mkdtemp(prefix='pyvc-seed-', dir='/var/tmp')
    try:
        clean = os.path.join(scratch, 'clean')
        mut = os.path.join(scratch, 'mut')
        ign = shutil.ignore_patterns('.git', '__pycache__', '*.pyc', '.pytest_cache')
        shutil.copytree(REPO, clean, ignore=ign)
        shutil.copytree(REPO, mut, ignore=ign)
        sh('git init -q . && git add -A && git -c user.email=a@b -c user.name=x commit -qm base', cwd=mut)
        r = sh(['git', 'apply', os.path.join(os.path.abspath(seed_dir), 'patch.diff')], cwd=mut)
        meta['patch_applies'] = r.returncode == 0
        if r.returncode != 0:
            meta['apply_error'] = r.stderr[-500:]
        demo = None
        for n in ('demo.py', 'demo.sh'):
            if os.path.exists(os.path.join(seed_dir, n)):
                demo = n
        runner = ['/venv/bin/python'] if demo and demo.endswith('.py') else ['bash']
        if demo and meta['patch_applies']:
            a = sh(runner + [os.path.join(os.path.abspath(seed_dir), demo), clean], timeout=600)
            b = sh(runner + [os.path.join(os.path.abspath(seed_dir), demo), mut], timeout=600)
            meta['demo_exit_clean'] = a.returncode
            meta['demo_exit_changed'] = b.returncode
            meta['demo_output_changed'] = (b.stdout + b.stderr)[-800:]
        if meta['patch_applies']:
            t = sh('/venv/bin/python -m pytest -q -p no:cacheprovider --timeout=900 -q 2>&1 | tail -15', cwd=mut, timeout=1800)
            failed = [l for l in t.stdout.split('\n') if l.startswith('FAILED') or l.startswith('ERROR')]
            unexpected = [l for l in failed if not any(k in l for k in KNOWN_FAIL)]
            meta['tests_unexpected_failures'] = unexpected
            meta['tests_summary'] = t.stdout.strip().split('\n')[-1]
            t0 = time.time()
            env = dict(os.environ, PYVC_EVIDENCE_DIR=scratch)
            # run the checks from the COMMITTED state of /verif, so that edits
            # in progress there cannot disturb an evaluation
            snap = os.path.join(scratch, 'verif')
            os.makedirs(snap)
            sh('git -C %s archive HEAD | tar -x -C %s' % (HERE, snap))
            c = sh(['python3-vt', '-m', 'pyvc', 'check', prop, '--repo', mut],
                   cwd=snap, env=env, timeout=3600)
            meta['check_exit'] = c.returncode
            meta['check_seconds'] = round(time.time() - t0, 1)
            meta['check_violations'] = [l.replace(scratch, '<scratch>') for l in
                                        c.stdout.split('\n') if l.startswith('VIOLATION')][:6]
            meta['check_last_line'] = c.stdout.strip().split('\n')[-1][:300]
        meta['valid_seed'] = bool(meta.get('patch_applies') and
                                  not meta.get('tests_unexpected_failures') and
                                  meta.get('demo_exit_clean') == 0 and
                                  meta.get('demo_exit_changed') not in (0, None))
        meta['detected'] = meta.get('check_exit') == 1
        meta['ran'] = ['git apply patch.diff on a scratch copy of /repo',
                       'pytest (baseline command) on the changed copy',
                       '%s <clean copy> ; %s <changed copy>' % (demo, demo),
                       'python3-vt -m pyvc check %s --repo <changed copy>' % prop]
    finally:
        shutil.rmtree(scratch, ignore_errors=True)
    os.makedirs(out_dir, exist_ok=True)
    for n in ('patch.diff', 'demo.py', 'demo.sh', 'notes.md'):
        p = os.path.join(seed_dir, n)
        if os.path.exists(p):
            shutil.copy(p, os.path.join(out_dir, n))
    try:
        notes = open(os.path.join(seed_dir, 'notes.md')).read()
        meta['needs_to_manifest'] = notes[:1500]
    except Exception:
        pass
    with open(os.path.join(out_dir, 'meta.json'), 'w') as f:
        json.dump(meta, f, indent=1)
    print(sid, prop, 'valid=%s detected=%s' % (meta['valid_seed'], meta['detected']),
          meta.get('check_violations', [])[:2], meta.get('check_last_line', '')[-120:])


main()
