#!/bin/bash
# pinned.sh [parallel]: run every quick check against the ORIGINAL pinned commit (before the fix: commits)
# in a scratch worktree under /var/tmp; prints the violations per property.  The worktree is removed afterwards.
par=${1:-3}
base=$(git -C /repo log --format=%H --grep='^fix:' --invert-grep -n 1)   # newest commit that is not a fix
first_fix=$(git -C /repo log --format=%H --grep='^fix:' | tail -1)
pinned=$(git -C /repo rev-parse ${first_fix}^)
wt=/var/tmp/pyvc-pinned-wt; out=/var/tmp/pyvc-pinned-out
git -C /repo worktree remove --force $wt 2>/dev/null; rm -rf $wt $out; mkdir -p $out
git -C /repo worktree add -q --detach $wt $pinned || exit 3
echo "pinned commit $pinned"
cd /verif
seq -f "C%02g" 1 20 | PYVC_EVIDENCE_DIR=$out xargs -P $par -I{} sh -c "python3-vt -m pyvc check {} --repo $wt > $out/{}.out 2>&1; echo \"{} exit \$?\"; grep '^VIOLATION' $out/{}.out | sed 's/replay=[^ ]*\///' | cut -c1-200"
git -C /repo worktree remove --force $wt
