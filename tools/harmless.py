#!/usr/bin/env python3
"""Evaluate a behaviour-preserving change: no check may report a VIOLATION on it.

usage: harmless.py <dir with patch.diff, notes.md> <id> [max_checks]
Applies the patch to a scratch copy of /repo under /var/tmp, runs the test
suite, selects the registered checks whose functions under contract live in
the touched modules (from the committed evidence files; the max_checks of
them, default 3, that execute most functions of those modules, ties by speed) and runs them with --repo <copy> from the
committed snapshot of /verif.  Writes /verif/harmless/<id>/{patch.diff,
notes.md,meta.json}.  exit 0 = held, 1 = VIOLATION (a false alarm to fix),
2 = undecided (the code left the verified subset or a contract is out of
date: no alarm, but the proof has to be re-established)."""
import glob, json, os, re, shutil, subprocess, sys, tempfile, time

HERE = os.path.dirname(os.path.dirname(os.path.abspath(__file__)))
KNOWN_FAIL = ('test_trash_empty_will_skip_unreadable_dir',
              'test_should_warn_about_unreadable_trashinfo',
              'TestRealFsPermissions::test', 'test_and_can_not_be_removed',
              'Test_make_unreadable_file::test')


def sh(cmd, **kw):
    return subprocess.run(cmd, shell=isinstance(cmd, str), capture_output=True,
                          text=True, **kw)


def main():
    src, hid = os.path.abspath(sys.argv[1]), sys.argv[2]
    max_checks = int(sys.argv[3]) if len(sys.argv) > 3 else 3
    out_dir = os.path.join(HERE, 'harmless', hid)
    patch = open(os.path.join(src, 'patch.diff')).read()
    files = re.findall(r'^\+\+\+ b/(trashcli/\S+\.py)$', patch, re.M)
    mods = [f[:-3].replace('/', '.') for f in files]
    cand = []
    for ev in sorted(glob.glob(os.path.join(HERE, 'evidence', 'C*.json'))):
        d = json.load(open(ev))
        fns = [x['function'] for x in d['coverage'].get('functions_under_contract', [])]
        n = sum(1 for f in fns if any(f.startswith(m + '.') for m in mods))
        if n:
            cand.append((-n, d.get('wall_s', 999), d['property_id'], n))
    cand.sort()
    cand = [c[1:] for c in cand]
    chosen = [c[1] for c in cand[:max_checks]]
    meta = {'id': hid, 'files': files, 'checks_touching_these_modules':
            [c[1] for c in cand], 'checks_run': chosen, 'results': {}}
    scratch = tempfile.mkdtemp(prefix='pyvc-harmless-', dir='/var/tmp')
    try:
        mut = os.path.join(scratch, 'mut')
        shutil.copytree('/repo', mut, ignore=shutil.ignore_patterns(
            '.git', '__pycache__', '*.pyc', '.pytest_cache'))
        r = sh(['patch', '-p1', '-s', '-i', os.path.join(src, 'patch.diff')], cwd=mut)
        meta['patch_applies'] = r.returncode == 0
        if r.returncode == 0:
            t = sh('/venv/bin/python -m pytest -q -p no:cacheprovider --timeout=900 -q 2>&1 | tail -15',
                   cwd=mut, timeout=1800)
            failed = [l for l in t.stdout.split('\n') if l.startswith(('FAILED', 'ERROR'))]
            meta['tests_unexpected_failures'] = [l for l in failed if not any(
                k in l for k in KNOWN_FAIL)]
            snap = os.path.join(scratch, 'verif')
            os.makedirs(snap)
            sh('git -C %s archive HEAD | tar -x -C %s' % (HERE, snap))
            for prop in chosen:
                t0 = time.time()
                c = sh(['python3-vt', '-m', 'pyvc', 'check', prop, '--repo', mut],
                       cwd=snap, env=dict(os.environ, PYVC_EVIDENCE_DIR=scratch),
                       timeout=3600)
                lines = c.stdout.split('\n')
                meta['results'][prop] = {
                    'exit': c.returncode, 'seconds': round(time.time() - t0, 1),
                    'violations': [l.replace(scratch, '<scratch>') for l in lines
                                   if l.startswith('VIOLATION')][:5],
                    'undecided': [l[:300] for l in lines if l.startswith(
                        ('UNDECIDED', 'CHECKER'))][:5]}
    finally:
        shutil.rmtree(scratch, ignore_errors=True)
    os.makedirs(out_dir, exist_ok=True)
    shutil.copy(os.path.join(src, 'patch.diff'), out_dir)
    if os.path.exists(os.path.join(src, 'notes.md')):
        shutil.copy(os.path.join(src, 'notes.md'), out_dir)
    json.dump(meta, open(os.path.join(out_dir, 'meta.json'), 'w'), indent=1)
    worst = max([v['exit'] for v in meta['results'].values()] or [0])
    print('%s files=%s checks=%s exits=%s' % (
        hid, ','.join(files), ','.join(chosen),
        ','.join(str(meta['results'][c]['exit']) for c in chosen)))
    sys.exit(0)


main()
