#!/bin/bash
# tryseed.sh <seed-dir containing patch.diff> <Cxx> [extra args]: run a check on a scratch copy with the patch
set -u
sd=$(readlink -f "$1"); prop=$2; shift 2
d=$(mktemp -d /var/tmp/pyvc-try-XXXXXX)
rsync -a --exclude .git --exclude __pycache__ /repo/ $d/mut/
(cd $d/mut && patch -p1 -s < $sd/patch.diff) || { echo "patch failed"; rm -rf $d; exit 9; }
cd /verif && PYVC_EVIDENCE_DIR=$d python3-vt -m pyvc check $prop --repo $d/mut "$@"
rc=$?
cp $d/$prop.json /var/tmp/last-$prop-evidence.json 2>/dev/null
rm -rf $d
echo "exit $rc"
exit $rc
