#!/usr/bin/env python3
"""regenerate MANIFEST.json from the table below (keeps it valid at all times)"""
import json, os
HERE = os.path.dirname(os.path.abspath(__file__))
props = [json.loads(l) for l in open(os.path.join(HERE, 'properties.jsonl'))]

# property -> (technique, level text, level note, design ref)
CLAIMED = {}
def claim(pid, technique, text, note, ref):
    CLAIMED[pid] = (technique, text, note, ref)

exec(open(os.path.join(HERE, 'manifest_table.py')).read())

checks = []
for p in props:
    pid = p['id']
    if pid not in CLAIMED:
        continue
    technique, text, note, ref = CLAIMED[pid]
    checks.append({
        'property_id': pid,
        'quick_cmd': 'python3-vt -m pyvc check %s --tier quick' % pid,
        'thorough_cmd': 'python3-vt -m pyvc check %s --tier thorough' % pid,
        'evidence_file': 'evidence/%s.json' % pid,
        'replay_cmd_template': 'python3-vt -m pyvc replay {path}',
        'engine': 'pyvc',
        'level_claimed': {'category': 'proof', 'text': text, 'design_ref': ref},
        'level_note': note,
        'technique': technique,
    })
m = {
    'version': 1,
    'setup_cmd': 'python3-vt -m pyvc selftest',
    'hooks': {'guard': 'TRASH_CLI_VERIF',
              'enable': 'no hooks: contracts are sidecar files under /verif/contracts, /repo is re-read with ast on every run',
              'baseline_off_cmd': 'cd /repo && /venv/bin/python -m pytest -ra -q -p no:cacheprovider --timeout=900 --continue-on-collection-errors',
              'source_commits': [], 'add_only': True},
    'engines': [{'name': 'pyvc', 'path': 'pyvc/',
                 'serves_properties': sorted(CLAIMED),
                 'kind_free_text': 'contract-based deductive verification: VC generation by symbolic execution of the real function ASTs of /repo against sidecar contracts and loop invariants, discharged by z3 / cvc5; counter-models replayed natively'}],
    'checks': checks,
    'notes': NOTES,
    'not_applicable': [{'property_id': p['id'], 'reason': NOT_YET.get(p['id'], 'designed (DESIGN.md section 4), check not built yet')}
                       for p in props if p['id'] not in CLAIMED],
}
json.dump(m, open(os.path.join(HERE, 'MANIFEST.json'), 'w'), indent=1)
print('claimed', sorted(CLAIMED))
