"""C06: trash-restore never clobbers an existing destination unless
--overwrite is given."""
import os
from . import restore, options
from pyvc.scenario import Sandbox

PROPERTY = 'C06'
LEVEL_NOTE = ('Restorer.restore_trashed_file: for every destination state '
              '(lstat kind) without --overwrite an existing destination means '
              'IOError before any file-system event; event shape of a restore; '
              'pipeline: a refused entry stops the run with exit 1 and a '
              'message, later entries untouched')
EXPECTED = [
    'restore-options/overwrite-only-with-its-flag',
    'restore-options/sort-key-maps-to-its-mode',
    'restore-options/path-is-the-operand-under-the-current-directory-normalised',
    'restore-options/trash-dir-is-the-option-value',
    'restore/refuses-any-existing-destination',
    'restore/refusal-only-when-destination-exists',
    'restore/move-source-is-the-payload',
    'restore/move-destination-is-the-original-location',
    'restore/only-the-info-file-is-removed',
    'restore-twice/second-entry-for-the-same-path-is-refused',
    'pipeline/a-refused-entry-stops-the-run-with-exit-1',
    'pipeline/a-refusal-is-reported-on-stderr',
]


def build(S, tier, seed):
    restore.restore_one_vc(S)
    restore.restore_twice_vc(S)
    restore.pipeline_vc(S)
    options.restore_options_vc(S)


def destination_battery(repo):
    """every kind of pre-existing destination, with and without --overwrite"""
    problems = []
    kinds = ['file', 'dir', 'link-file', 'link-dir', 'dangling']
    for kind in kinds:
        for overwrite in (False, True):
            with Sandbox(repo) as sb:
                td = sb.path('T')
                work = sb.path('work')
                os.makedirs(work)
                dest = os.path.join(work, 'x')
                sb.add_entry(td, 'x', path=dest)
                other = sb.path('other')
                os.makedirs(other)
                with open(os.path.join(other, 'f'), 'w') as f:
                    f.write('other')
                if kind == 'file':
                    open(dest, 'w').write('existing')
                elif kind == 'dir':
                    os.makedirs(dest)
                elif kind == 'link-file':
                    os.symlink(os.path.join(other, 'f'), dest)
                elif kind == 'link-dir':
                    os.symlink(other, dest)
                else:
                    os.symlink('/nonexistent/zzz', dest)
                before = sb.snapshot()
                args = ['--trash-dir', td] + (['--overwrite'] if overwrite else [])
                run = sb.run('trash-restore', args + [work], stdin='0\n',
                             cwd=work)
                after = sb.snapshot()
                if not overwrite:
                    if run['exit'] == 0:
                        problems.append('%s: exit 0 without --overwrite' % kind)
                    if before != after:
                        problems.append('%s: state changed without --overwrite: %r'
                                        % (kind, sorted(set(before.items()) ^ set(after.items()))[:4]))
                elif kind in ('file', 'link-file', 'dangling'):
                    if after.get('work/x', (None,))[0] != 'file' or \
                            'T/files/x' in after or 'T/info/x.trashinfo' in after:
                        problems.append('%s: --overwrite did not replace: %r' % (
                            kind, after.get('work/x')))
                    if after.get('other/f') != before.get('other/f'):
                        problems.append('%s: link target modified' % kind)
    # two trashed versions of the same path, one multi-index reply
    for reply in ('0-1', '0,1', '1,0'):
        with Sandbox(repo) as sb:
            td = sb.path('T')
            work = sb.path('work')
            os.makedirs(work)
            dest = os.path.join(work, 'x')
            sb.add_entry(td, 'x', path=dest, date='2000-01-01T00:00:00')
            sb.add_entry(td, 'x_1', path=dest, date='2001-01-01T00:00:00')
            run = sb.run('trash-restore', ['--trash-dir', td, work], stdin=reply + '\n',
                         cwd=work)
            after = sb.snapshot()
            left = [k for k in after if k.startswith('T/files/')]
            if run['exit'] == 0 or len(left) != 1:
                problems.append('reply %s on two versions of one path: exit %r, '
                                'left in trash %r' % (reply, run['exit'], left))
    return {'confirmed': bool(problems), 'problems': problems[:10]}


def _battery(S, r, o):
    return destination_battery(S.interp.repo)


REPLAYERS = {'': _battery}
KF_CLASSES = {}
