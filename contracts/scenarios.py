"""Native scenario batteries against the real CLIs of the tree under test.
They serve as replay builders for refuted obligations (a refutation is
confirmed when the battery shows the property broken on the real code) and
as the bounded differential checks of the thorough tier (never counted as
proof)."""
import fnmatch
import os

from pyvc.scenario import Sandbox


def _env(sb):
    vol = sb.path('vol')
    os.makedirs(vol, exist_ok=True)
    return {'TRASH_VOLUMES': vol}


def _home_trash(sb):
    return os.path.join(sb.home, '.local', 'share', 'Trash')


def purge_frame_battery(repo):
    """C11: symlinks in the trash are unlinked, never followed; nothing
    outside files/ and info/ changes"""
    problems = []
    runs = []
    for tool, args in (('trash-empty', ['-f']), ('trash-empty', ['-f', '0']),
                       ('trash-rm', ['*'])):
        with Sandbox(repo) as sb:
            td = _home_trash(sb)
            outside = sb.path('outside')
            os.makedirs(os.path.join(outside, 'd', 'deep'))
            with open(os.path.join(outside, 'd', 'deep', 'f'), 'w') as f:
                f.write('precious')
            with open(os.path.join(outside, 'g'), 'w') as f:
                f.write('precious2')
            sb.add_entry(td, 'linkdir', payload=('link', os.path.join(outside, 'd')))
            sb.add_entry(td, 'linkfile', payload=('link', os.path.join(outside, 'g')))
            sb.add_entry(td, 'dangling', payload=('link', '/nonexistent/x'))
            sb.add_entry(td, 'rel', payload=('link', '../../../../../outside/d'))
            sb.add_entry(td, 'tree', payload='dir')
            os.symlink(os.path.join(outside, 'd'),
                       os.path.join(td, 'files', 'tree', 'sub', 'inner'))
            # an outside directory without u+w, linked from inside a payload
            os.makedirs(os.path.join(outside, 'ro', 'keep'))
            os.chmod(os.path.join(outside, 'ro'), 0o500)
            os.symlink(os.path.join(outside, 'ro'),
                       os.path.join(td, 'files', 'tree', 'sub', 'ro-link'))
            os.symlink('../../../../../../outside/ro',
                       os.path.join(td, 'files', 'tree', 'ro-rel'))
            sb.add_entry(td, 'plain')
            with open(os.path.join(td, 'directorysizes'), 'w') as f:
                f.write('x')
            os.symlink(os.path.join(outside, 'd'), os.path.join(td, 'files', 'orphanlink'))
            before = sb.snapshot()
            run = sb.run(tool, args, env=_env(sb))
            after = sb.snapshot()
            runs.append(run)
            for k in before:
                rel_td = os.path.relpath(os.path.join(sb.root, k), td)
                inside = rel_td.startswith('files/') or rel_td.startswith('info/')
                if not inside and before[k] != after.get(k):
                    problems.append('%s %s: %s changed: %r -> %r' % (
                        tool, args, k, before[k], after.get(k)))
            left = [k for k in after if '/Trash/files/' in '/' + k or '/Trash/info/' in '/' + k]
            if tool == 'trash-empty' and args == ['-f'] and left:
                problems.append('%s %s: not purged: %r' % (tool, args, left))
            if run['exit'] not in (0, None) or 'Traceback' in run['stderr']:
                problems.append('%s %s: exit %r stderr %s' % (
                    tool, args, run['exit'], run['stderr'][-300:]))
    # a trash directory spelled through a symlink followed by '..': the
    # lexically normalised path names an unrelated directory, whose files/
    # must not be touched
    for tool, args in (('trash-empty', ['-f']), ('trash-rm', ['*'])):
        with Sandbox(repo) as sb:
            real = sb.path('real', 'deep', 'share', 'Trash')
            sb.add_entry(real, 'doc', path='/orig/doc')
            sb.add_entry(real, 'tree', path='/orig/tree', payload='dir')
            os.makedirs(sb.path('data'))
            os.symlink(sb.path('real', 'deep', 'inner'), sb.path('data', 'lnk'))
            os.makedirs(sb.path('real', 'deep', 'inner'))
            # data/lnk/../share/Trash  really is real/deep/share/Trash, but
            # normalises (lexically) to data/share/Trash
            foreign = sb.path('data', 'share', 'Trash')
            os.makedirs(os.path.join(foreign, 'files', 'tree', 'sub'))
            with open(os.path.join(foreign, 'files', 'doc'), 'w') as f:
                f.write('foreign doc')
            with open(os.path.join(foreign, 'files', 'tree', 'sub', 'f'), 'w') as f:
                f.write('foreign tree')
            spelled = sb.path('data', 'lnk', '..', 'share', 'Trash')
            before = sb.snapshot()
            if tool == 'trash-empty':
                run = sb.run(tool, args + ['--trash-dir', spelled], env=_env(sb))
            else:
                e = _env(sb)
                e['XDG_DATA_HOME'] = sb.path('data', 'lnk', '..', 'share')
                run = sb.run(tool, args, env=e)
            after = sb.snapshot()
            for k in before:
                if k.startswith('data/share/') and before[k] != after.get(k):
                    problems.append('%s with the trash dir spelled %s: the unrelated '
                                    '%s changed' % (tool, 'data/lnk/../share/Trash', k))
            if 'Traceback' in run['stderr']:
                problems.append('%s on link/../ spelling: traceback' % tool)
    return {'confirmed': bool(problems), 'problems': problems[:10],
            'runs': [r['cmd'] for r in runs]}


PATTERNS = ['foo', 'FOO', 'f*', '*.o', '?oo', '[fF]oo', '/abs/dir/foo', '/abs/*',
            '*', 'dir/foo', 'fo', '[!f]oo', 'a*b', '*[*', '/', 'foo*']
NAMES = ['/abs/dir/foo', '/abs/dir/Foo', '/abs/dir/FOO', '/abs/other/foo',
         '/abs/dir/foo.o', '/abs/dir/boo', '/abs/dir/a[b', '/abs/dir/fo',
         '/abs/dir/foobar', '/abs/dir/a*b', '/abs/dir/axb']


def rm_pattern_battery(repo, patterns=None):
    """C12: removed set == {entries whose basename (or full path for
    /-patterns) matches, case-sensitively}; survivors byte-identical"""
    problems = []
    for pat in (patterns or PATTERNS):
        with Sandbox(repo) as sb:
            td = _home_trash(sb)
            for i, n in enumerate(NAMES):
                sb.add_entry(td, 'e%d' % i, path=n.replace('%', '%25'))
            before = sb.snapshot(td)
            run = sb.run('trash-rm', [pat], env=_env(sb))
            after = sb.snapshot(td)
            for i, n in enumerate(NAMES):
                subject = n if pat[0:1] == '/' else os.path.basename(n)
                want = fnmatch.fnmatchcase(subject, pat)
                gone_p = ('files/e%d' % i) not in after
                gone_i = ('info/e%d.trashinfo' % i) not in after
                if gone_p != gone_i:
                    problems.append('%r: entry %s half removed' % (pat, n))
                elif gone_p != want:
                    problems.append('%r: %s removed=%s expected=%s' % (
                        pat, n, gone_p, want))
                elif not gone_p and (before['files/e%d' % i] != after['files/e%d' % i]
                                     or before['info/e%d.trashinfo' % i] != after['info/e%d.trashinfo' % i]):
                    problems.append('%r: survivor %s modified' % (pat, n))
            if 'Traceback' in run['stderr']:
                problems.append('%r: traceback %s' % (pat, run['stderr'][-200:]))
    return {'confirmed': bool(problems), 'problems': problems[:10]}


def dry_run_battery(repo):
    """C14: --dry-run changes nothing and prints exactly what the real run
    removes; negative replies change nothing"""
    problems = []

    def build(sb):
        td = _home_trash(sb)
        sb.add_entry(td, 'old', date='2000-01-01T00:00:00')
        sb.add_entry(td, 'new', date='2999-01-01T00:00:00')
        sb.add_entry(td, 'undated', date=None)
        sb.add_entry(td, 'tree', payload='dir', date='2000-01-01T00:00:00')
        with open(os.path.join(td, 'files', 'orphan'), 'w') as f:
            f.write('o')
        with open(os.path.join(td, 'info', 'notinfo.txt'), 'w') as f:
            f.write('o')
        return td
    for args in ([], ['30'], ['0'], ['-v'], ['99999']):
        with Sandbox(repo) as sb:
            td = build(sb)
            env = dict(_env(sb), TRASH_DATE='2020-01-01T00:00:00')
            before = sb.snapshot()
            dry = sb.run('trash-empty', ['-f', '--dry-run'] + args, env=env)
            mid = sb.snapshot()
            if mid != before:
                problems.append('--dry-run %s changed the trash' % args)
            printed = sorted(l[len('would remove '):] for l in
                             dry['stdout'].split('\n') if l.startswith('would remove '))
            real = sb.run('trash-empty', ['-f'] + args, env=env)
            after = sb.snapshot()
            removed = sorted(os.path.join(sb.root, k) for k in before
                             if k not in after)
            # printed paths are top-level entries; removed contains subtrees
            top_removed = sorted(p for p in removed
                                 if os.path.dirname(p) in (os.path.join(td, 'files'),
                                                           os.path.join(td, 'info')))
            printed_existing = sorted(p for p in printed if os.path.lexists(p) or
                                      os.path.relpath(p, sb.root) in before)
            if printed_existing != top_removed:
                problems.append('%s: printed %r but removed %r' % (
                    args, printed_existing, top_removed))
    for reply in ['', 'n', 'N', 'no', ' y', 'ny', 'q', '\xff', 'ÿ', None]:
        with Sandbox(repo) as sb:
            td = build(sb)
            before = sb.snapshot()
            run = sb.run('trash-empty', ['-i'], env=_env(sb),
                         stdin=('' if reply is None else reply + '\n'))
            after = sb.snapshot()
            if before != after:
                problems.append('reply %r changed the trash' % (reply,))
    for reply in ['y', 'Y', 'yes', 'Yup']:
        with Sandbox(repo) as sb:
            td = build(sb)
            run = sb.run('trash-empty', ['-i'], env=_env(sb), stdin=reply + '\n')
            after = sb.snapshot(td)
            if any(k.startswith('files/') for k in after):
                problems.append('reply %r did not purge' % reply)
    return {'confirmed': bool(problems), 'problems': problems[:10]}


def _stranded(snap):
    """payloads under files/ whose info is missing"""
    out = []
    for k in snap:
        parts = k.split('/')
        if len(parts) == 2 and parts[0] == 'files':
            if 'info/%s.trashinfo' % parts[1] not in snap:
                out.append(k)
    return out


def kill_points_purge(repo, max_ops=40):
    """C15 (empty, rm): kill at every mutating operation; no payload may be
    left without its info; a re-run completes the purge"""
    problems = []
    explored = 0
    for tool, args in (('trash-empty', ['-f']), ('trash-rm', ['*'])):
        k = 1
        while k <= max_ops:
            with Sandbox(repo) as sb:
                td = _home_trash(sb)
                sb.add_entry(td, 'a')
                sb.add_entry(td, 'tree', payload='dir')
                sb.add_entry(td, 'lnk', payload=('link', '/nonexistent'))
                run = sb.run_faulty(tool, args, {'kill_at': k}, env=_env(sb))
                snap = sb.snapshot(td)
                explored += 1
                st = _stranded(snap)
                if st:
                    problems.append('%s killed at op %d: payload without info: %r'
                                    % (tool, k, st))
                rerun = sb.run(tool, args, env=_env(sb))
                snap2 = sb.snapshot(td)
                left = [x for x in snap2 if x.startswith('files/') or x.startswith('info/')]
                if left:
                    problems.append('%s killed at op %d: re-run left %r' % (tool, k, left))
                if run['exit'] != 99:
                    break
            k += 1
    return {'confirmed': bool(problems), 'problems': problems[:10],
            'kill_points_explored': explored}


# ---------------------------------------------------------------------------
# trash-put batteries
# ---------------------------------------------------------------------------
def _build_work(sb):
    work = sb.path('work')
    os.makedirs(os.path.join(work, 'd', 'sub'))
    open(os.path.join(work, 'f'), 'w').write('content of f')
    open(os.path.join(work, 'empty'), 'w').close()
    open(os.path.join(work, 'd', 'sub', 'inner'), 'w').write('inner')
    os.symlink('../f', os.path.join(work, 'd', 'rel-link'))
    os.makedirs(os.path.join(work, 'target', 'deep'))
    open(os.path.join(work, 'target', 'deep', 'x'), 'w').write('x')
    os.symlink('f', os.path.join(work, 'lf'))
    os.symlink('target', os.path.join(work, 'ld'))
    os.symlink('/nonexistent/zz', os.path.join(work, 'dl'))
    open(os.path.join(work, 'name with spaces'), 'w').write('s')
    open(os.path.join(work, '-dash'), 'w').write('s')
    open(os.path.join(work, 'per%cent+plus'), 'w').write('s')
    return work


SPELLINGS = [
    # (argument, entry it names relative to work or None when it must be refused)
    ('f', 'f'), ('./f', 'f'), ('d/../f', 'f'), ('empty', 'empty'),
    ('d', 'd'), ('d/', 'd'), ('d//', 'd'), ('./d/', 'd'),
    ('lf', 'lf'), ('ld', 'ld'), ('ld/', 'ld'), ('ld//', 'ld'), ('dl', 'dl'),
    ('d/sub/inner', 'd/sub/inner'), ('ld/deep', 'target/deep'),
    ('name with spaces', 'name with spaces'), ('./-dash', '-dash'),
    ('per%cent+plus', 'per%cent+plus'),
    ('.', None), ('..', None), ('./', None), ('../', None), ('d/.', None),
    ('d/./', None), ('d/..', None), ('d/sub/../..', None), ('missing', None),
]


def _judge_put(before, after, entry, exit_code, label, expect_success=False):
    """C01 on one run: before/after are snapshots of the sandbox"""
    problems = []
    t_new = sorted(k for k in after if k.startswith('T/') and k not in before)
    work_changed = sorted(k for k in set(before) | set(after)
                          if k.startswith('work/') and before.get(k) != after.get(k))
    infos = [k for k in t_new if k.startswith('T/info/') and k.endswith('.trashinfo')]
    tops = [k for k in t_new if k.startswith('T/files/') and k.count('/') == 2]
    if exit_code == 0 and entry is not None:
        if len(infos) != 1 or len(tops) != 1:
            problems.append('%s: exit 0 but %d info / %d payload' % (label, len(infos), len(tops)))
        else:
            name = tops[0][len('T/files/'):]
            if infos[0] != 'T/info/%s.trashinfo' % name:
                problems.append('%s: info and payload names differ' % label)
            sub_before = dict((k[len('work/' + entry):], v) for k, v in before.items()
                              if k == 'work/' + entry or k.startswith('work/' + entry + '/'))
            sub_after = dict((k[len(tops[0]):], v) for k, v in after.items()
                             if k == tops[0] or k.startswith(tops[0] + '/'))
            if sub_before != sub_after:
                problems.append('%s: payload differs from the original entry' % label)
            gone = [k for k in after if k == 'work/' + entry or k.startswith('work/' + entry + '/')]
            if gone:
                problems.append('%s: exit 0 but the entry is still in place' % label)
            others = [k for k in work_changed if not (
                k == 'work/' + entry or k.startswith('work/' + entry + '/'))]
            if others:
                problems.append('%s: other entries changed: %r' % (label, others[:3]))
    else:
        if expect_success and entry is not None:
            problems.append('%s: exit %r but the entry exists and must be '
                            'trashed' % (label, exit_code))
        if work_changed:
            problems.append('%s: exit %r but the work tree changed: %r' % (
                label, exit_code, work_changed[:4]))
        stray = [k for k in t_new if k not in ('T/files', 'T/info')]
        if stray:
            problems.append('%s: exit %r but the trash gained %r' % (
                label, exit_code, stray[:4]))
        if exit_code == 0 and entry is None and 'missing' not in label:
            problems.append('%s: refused entry but exit 0' % label)
    return problems


def put_spellings_battery(repo, spellings=None, extra_args=()):
    problems = []
    for arg, entry in (spellings or SPELLINGS):
        with Sandbox(repo) as sb:
            work = _build_work(sb)
            td = sb.path('T')
            os.makedirs(td)
            before = sb.snapshot()
            run = sb.run('trash-put', list(extra_args) + ['--trash-dir', td, '--', arg],
                         cwd=work)
            after = sb.snapshot()
            problems += _judge_put(before, after, entry, run['exit'],
                                   'trash-put %s' % arg, expect_success=True)
            if 'Traceback' in run['stderr']:
                problems.append('trash-put %s: traceback' % arg)
    return {'confirmed': bool(problems), 'problems': problems[:12]}


FAULTS = [('open', 13), ('open', 28), ('open', 30), ('open', 36), ('write', 28),
          ('write', 5), ('close', 5), ('rename', 16), ('rename', 13), ('rename', 18),
          ('rename', 22), ('makedirs', 13), ('makedirs', 30), ('mkdir', 13),
          ('remove', 13), ('unlink', 13)]


def put_faults_battery(repo, faults=None):
    """C17: a persistent errno on one primitive: terminates, honest exit,
    C01 final state"""
    problems = []
    for op, en in (faults or FAULTS):
        for arg, entry in (('f', 'f'), ('d', 'd'), ('ld/', 'ld')):
            with Sandbox(repo) as sb:
                work = _build_work(sb)
                td = sb.path('T')
                os.makedirs(td)
                before = sb.snapshot()
                run = sb.run_faulty('trash-put', ['--trash-dir', td, '--', arg],
                                    {'fail_op': {op: en}}, cwd=work, timeout=25)
                after = sb.snapshot()
                after.pop('faultlog.json', None)
                label = 'trash-put %s with %s->errno %d' % (arg, op, en)
                if run['exit'] is None:
                    problems.append('%s: did not terminate within 25 s' % label)
                    continue
                problems += _judge_put(before, after, entry, run['exit'], label)
                if 'Traceback' in run['stderr']:
                    problems.append('%s: traceback' % label)
    return {'confirmed': bool(problems), 'problems': problems[:12]}


def put_kill_battery(repo, max_ops=25):
    """C05: kill at every mutating operation"""
    problems = []
    explored = 0
    for arg, entry in (('f', 'f'), ('d', 'd'), ('lf', 'lf')):
        for first_use in (True, False):
            k = 1
            while k <= max_ops:
                with Sandbox(repo) as sb:
                    work = _build_work(sb)
                    td = sb.path('T')
                    if not first_use:
                        sb.add_entry(td, entry.split('/')[-1])   # name collision
                    before = sb.snapshot()
                    run = sb.run_faulty('trash-put', ['--trash-dir', td, '--', arg],
                                        {'kill_at': k}, cwd=work)
                    after = sb.snapshot()
                    explored += 1
                    label = 'trash-put %s killed at op %d (first use %s)' % (arg, k, first_use)
                    src = dict((kk, v) for kk, v in after.items()
                               if kk == 'work/' + entry or kk.startswith('work/' + entry + '/'))
                    src0 = dict((kk, v) for kk, v in before.items()
                                if kk == 'work/' + entry or kk.startswith('work/' + entry + '/'))
                    new_tops = [kk for kk in after if kk.startswith('T/files/') and
                                kk.count('/') == 2 and kk not in before]
                    complete_src = src == src0
                    complete_trash = False
                    for t in new_tops:
                        sub = dict((kk[len(t):], v) for kk, v in after.items()
                                   if kk == t or kk.startswith(t + '/'))
                        if sub == dict((kk[len('work/' + entry):], v) for kk, v in src0.items()):
                            complete_trash = True
                        info = 'T/info/%s.trashinfo' % t[len('T/files/'):]
                        if info not in after:
                            problems.append('%s: payload %s without info' % (label, t))
                        else:
                            txt = open(os.path.join(sb.root, info), 'rb').read() \
                                if os.path.exists(os.path.join(sb.root, info)) else b''
                    if not (complete_src or complete_trash):
                        problems.append('%s: entry neither complete in place nor in trash' % label)
                    if complete_src and complete_trash:
                        problems.append('%s: entry in both places' % label)
                    if run['exit'] != 99:
                        break
                k += 1
    return {'confirmed': bool(problems), 'problems': problems[:12],
            'kill_points_explored': explored}


def put_args_battery(repo):
    """C16: exit status and independence of arguments"""
    problems = []
    lists = [['f', 'missing', 'empty'], ['missing', 'f'], ['.', 'f', '..', 'empty'],
             ['f', 'f'], ['f', 'bad\udcff', 'empty'], ['bad\udcff'],
             ['f', 'd', 'lf', 'dl'], ['missing1', 'missing2']]
    for args in lists:
        for opts in ([], ['-f'], ['-v']):
            with Sandbox(repo) as sb:
                work = _build_work(sb)
                open(os.fsencode(os.path.join(work, 'bad\udcff')), 'w').write('b')
                td = sb.path('T')
                os.makedirs(td)
                before = sb.snapshot()
                run = sb.run('trash-put', opts + ['--trash-dir', td, '--'] + args,
                             cwd=work)
                after = sb.snapshot()
                label = 'trash-put %s %r' % (' '.join(opts), args)
                if 'Traceback' in run['stderr']:
                    problems.append('%s: traceback' % label)
                seen = set()
                any_fail = False
                for a in args:
                    exists0 = ('work/' + a) in before and a not in seen
                    dot = a in ('.', '..')
                    gone = ('work/' + a) not in after
                    if exists0 and not dot:
                        if not gone:
                            # un-encodable names may fail, but must be reported
                            any_fail = True
                            if a.encode('utf-8', 'surrogateescape').decode(
                                    'utf-8', 'replace') == a and a != 'bad\udcff':
                                problems.append('%s: %s not trashed' % (label, a))
                    else:
                        if dot or '-f' not in opts:
                            any_fail = True
                    seen.add(a)
                if (run['exit'] == 0) == any_fail:
                    problems.append('%s: exit %r but failures expected=%s' % (
                        label, run['exit'], any_fail))
    # a HOME that is not a valid regular expression, and an empty-string
    # argument: every other argument is still handled and the exit status
    # still tells the truth
    for home_name in ('h (o[ld', 'h+.*'):
        with Sandbox(repo) as sb:
            work = _build_work(sb)
            home = sb.path(home_name)
            os.makedirs(home)
            td = sb.path('T')
            os.makedirs(td)
            run = sb.run('trash-put', ['--trash-dir', td, '--', 'f', 'missing', 'empty'],
                         cwd=work, env={'HOME': home, 'XDG_DATA_HOME': os.path.join(
                             home, '.local', 'share')})
            after = sb.snapshot()
            label = 'trash-put f missing empty with HOME=%r' % home_name
            if 'Traceback' in run['stderr']:
                problems.append('%s: traceback %s' % (label, run['stderr'][-200:]))
            for a in ('f', 'empty'):
                if ('work/' + a) in after:
                    problems.append('%s: %s not trashed' % (label, a))
            if run['exit'] == 0:
                problems.append('%s: exit 0 although "missing" failed' % label)
    with Sandbox(repo) as sb:
        work = _build_work(sb)
        td = sb.path('T')
        os.makedirs(td)
        for args in (['', 'f'], ['']):
            run = sb.run('trash-put', ['--trash-dir', td, '--'] + args, cwd=work)
            if run['exit'] == 0:
                problems.append("trash-put %r: exit 0 although '' cannot be trashed" % (args,))
    return {'confirmed': bool(problems), 'problems': problems[:12]}


def put_concurrency_battery(repo, n=6, rounds=3):
    """C04: n concurrent trash-puts of same-named entries into one trash"""
    import subprocess
    from pyvc.scenario import REAL_PYTHON
    problems = []
    for r in range(rounds):
        with Sandbox(repo) as sb:
            td = sb.path('T')       # created concurrently by the processes
            procs = []
            for i in range(n):
                d = sb.path('w%d' % i)
                os.makedirs(d)
                if i % 3 == 2:
                    os.makedirs(os.path.join(d, 'same'))
                    open(os.path.join(d, 'same', 'id'), 'w').write('dir %d' % i)
                else:
                    open(os.path.join(d, 'same'), 'w').write('file %d' % i)
            env = {'PATH': os.environ.get('PATH', ''), 'HOME': sb.home,
                   'PYTHONPATH': repo, 'LANG': 'C.UTF-8'}
            for i in range(n):
                procs.append(subprocess.Popen(
                    [REAL_PYTHON, os.path.join(repo, 'trash-put'), '--trash-dir',
                     td, 'same'], cwd=sb.path('w%d' % i), env=env,
                    stdout=subprocess.PIPE, stderr=subprocess.PIPE))
            codes = [p.wait() for p in procs]
            snap = sb.snapshot(td)
            tops = sorted(k for k in snap if k.startswith('files/') and k.count('/') == 1)
            infos = sorted(k for k in snap if k.startswith('info/'))
            ok = sum(1 for c in codes if c == 0)
            if len(tops) != ok or len(infos) != ok:
                problems.append('round %d: %d successes but %d payloads / %d infos'
                                % (r, ok, len(tops), len(infos)))
            for t in tops:
                if 'info/%s.trashinfo' % t[len('files/'):] not in snap:
                    problems.append('round %d: %s without info' % (r, t))
            contents = set()
            for t in tops:
                p = os.path.join(td, t)
                if os.path.isdir(p):
                    ids = [x for x in os.listdir(p)]
                    if ids != ['id']:
                        problems.append('round %d: merged directory %s: %r' % (r, t, ids))
                    else:
                        contents.add(open(os.path.join(p, 'id')).read())
                else:
                    contents.add(open(p).read())
            if len(contents) != ok:
                problems.append('round %d: %d distinct payloads for %d successes'
                                % (r, len(contents), ok))
            for i, c in enumerate(codes):
                still = os.path.lexists(sb.path('w%d' % i, 'same'))
                if (c == 0) == still:
                    problems.append('round %d: process %d exit %d, source still there=%s'
                                    % (r, i, c, still))
    return {'confirmed': bool(problems), 'problems': problems[:12]}


def put_volumes_battery(repo):
    """C07 natively: real tmpfs mounts in a private mount namespace: a file on
    a second volume goes to that volume's .Trash-$uid (or .Trash/$uid when
    secure), never across devices; created dirs are 0700"""
    import subprocess, textwrap, json
    script = textwrap.dedent(r'''
        set -e
        R=/tmp/pyvc-c07; mkdir -p $R && mount -t tmpfs none $R
        mkdir -p $R/home $R/vol1 $R/vol2 && mount -t tmpfs none $R/vol1 && mount -t tmpfs none $R/vol2
        export HOME=$R/home XDG_DATA_HOME=$R/home/.local/share
        PY="%(py)s"; PUT="%(repo)s/trash-put"
        uid=$(id -u)
        set +e
        # 1. file on vol1, no .Trash: -> vol1/.Trash-uid
        echo a > $R/vol1/a; $PY $PUT $R/vol1/a; echo "case1 $? $(ls -d $R/vol1/.Trash-$uid/files/a 2>/dev/null)"
        stat -c 'mode1 %%a' $R/vol1/.Trash-$uid $R/vol1/.Trash-$uid/files $R/vol1/.Trash-$uid/info
        # 2. sticky .Trash on vol2 -> vol2/.Trash/uid
        mkdir $R/vol2/.Trash; chmod 1777 $R/vol2/.Trash
        echo b > $R/vol2/b; $PY $PUT $R/vol2/b; echo "case2 $? $(ls -d $R/vol2/.Trash/$uid/files/b 2>/dev/null)"
        # 3. non-sticky .Trash -> falls through to .Trash-uid
        chmod 0777 $R/vol2/.Trash
        echo c > $R/vol2/c; $PY $PUT $R/vol2/c; echo "case3 $? $(ls -d $R/vol2/.Trash-$uid/files/c 2>/dev/null) $(ls -d $R/vol2/.Trash/$uid/files/c 2>/dev/null)"
        # 4. file under home (same tmpfs as R) -> home trash
        echo d > $R/home/d; $PY $PUT $R/home/d; echo "case4 $? $(ls -d $XDG_DATA_HOME/Trash/files/d 2>/dev/null)"
        # 5. symlink in home pointing to vol1, with trailing slash: the link is trashed at home
        mkdir $R/vol1/dir; ln -s $R/vol1/dir $R/home/lnk; $PY $PUT $R/home/lnk/; echo "case5 $? $(ls -d $XDG_DATA_HOME/Trash/files/lnk 2>/dev/null) $(ls -d $R/vol1/dir 2>/dev/null)"
        # 6. empty XDG_DATA_HOME -> HOME/.local/share/Trash
        echo e > $R/home/e; XDG_DATA_HOME= $PY $PUT $R/home/e; echo "case6 $? $(ls -d $R/home/.local/share/Trash/files/e 2>/dev/null)"
        # 7. --trash-dir on another volume is refused (no cross-device copy)
        echo f > $R/vol1/f; $PY $PUT --trash-dir $R/vol2/T $R/vol1/f; echo "case7 $? $(ls -d $R/vol1/f 2>/dev/null) $(ls $R/vol2/T/files 2>/dev/null | wc -l)"
        # 8. --trash-dir that is a symlink (on vol1) to a directory on vol2: refused as well
        mkdir $R/vol2/T2; ln -s $R/vol2/T2 $R/vol1/Tlink
        echo g > $R/vol1/g; $PY $PUT --trash-dir $R/vol1/Tlink $R/vol1/g; echo "case8 $? $(ls -d $R/vol1/g 2>/dev/null) $(ls $R/vol2/T2/files 2>/dev/null | wc -l)"
        # 9. a mount point itself: must fail with the content in place and nothing new in any trash
        mkdir $R/vol1/mp && mount -t tmpfs none $R/vol1/mp && echo h > $R/vol1/mp/h
        before=$(find $R/vol1/.Trash-$uid $R/home -type f 2>/dev/null | wc -l)
        $PY $PUT $R/vol1/mp; rc=$?
        after=$(find $R/vol1/.Trash-$uid $R/home -type f 2>/dev/null | wc -l)
        echo "case9 $rc $(ls $R/vol1/mp/h 2>/dev/null) $before $after"
    ''') % {'py': '/venv/bin/python', 'repo': repo}
    try:
        p = subprocess.run(['unshare', '-m', 'bash', '-c', script],
                           capture_output=True, text=True, timeout=120,
                           env=dict(os.environ, PYTHONPATH=repo))
    except Exception as e:
        return {'confirmed': False, 'note': 'unshare failed: %r' % (e,)}
    out = p.stdout
    problems = []
    lines = dict((l.split()[0], l) for l in out.split('\n') if l.startswith('case'))
    R = '/tmp/pyvc-c07'

    def expect(case, ok):
        if case not in lines:
            problems.append('%s: no output (%s)' % (case, p.stderr[-200:]))
        elif not ok(lines[case].split()[1:]):
            problems.append('%s unexpected: %s' % (case, lines[case]))
    expect('case1', lambda f: f[0] == '0' and len(f) == 2 and '.Trash-' in f[1])
    expect('case2', lambda f: f[0] == '0' and len(f) == 2 and '/.Trash/' in f[1])
    expect('case3', lambda f: f[0] == '0' and len(f) == 2 and '.Trash-' in f[1])
    expect('case4', lambda f: f[0] == '0' and len(f) == 2 and '/home/' in f[1])
    expect('case5', lambda f: f[0] == '0' and len(f) == 3)
    expect('case6', lambda f: f[0] == '0' and len(f) == 2)
    expect('case7', lambda f: f[0] != '0' and len(f) == 3 and f[-1] == '0')
    expect('case8', lambda f: f[0] != '0' and len(f) == 3 and f[-1] == '0')
    expect('case9', lambda f: f[0] != '0' and len(f) == 4 and f[2] == f[3])
    modes = [l for l in out.split('\n') if l.startswith('mode1')]
    if len(modes) != 3 or any(l.split()[1] != '700' for l in modes):
        problems.append('created trash dirs are not 0700: %r' % modes)
    return {'confirmed': bool(problems), 'problems': problems[:10],
            'stdout': out[-1500:], 'stderr': p.stderr[-500:]}


def put_xdev_battery(repo, mode='move'):
    """cross-device trash-put natively (pyvc/xdev_inner.py under `unshare -m`
    with two tmpfs volumes, home fallback enabled): mode 'move' checks that
    every entry kind arrives in the home trash with bytes, tree, link targets,
    modes and mtimes intact and the targets untouched (C01, C09, C18);
    mode 'kill' kills the run before every mutating operation of the
    copy+delete and checks C05's state predicate; mode 'restore' trashes
    across devices, restores back across devices (round trip, C02) and kills
    the restore before every mutating operation (C15)."""
    import subprocess, json
    inner = os.path.join(os.path.dirname(os.path.dirname(os.path.abspath(__file__))),
                         'pyvc', 'xdev_inner.py')
    try:
        p = subprocess.run(['unshare', '-m', '/venv/bin/python', inner, repo, mode],
                           capture_output=True, text=True, timeout=900)
    except Exception as e:
        return {'confirmed': False, 'note': 'unshare failed: %r' % (e,)}
    for l in p.stdout.split('\n'):
        if l.startswith('XDEV-RESULT '):
            r = json.loads(l[len('XDEV-RESULT '):])
            r['confirmed'] = bool(r['problems'])
            r['what'] = 'cross-device trash-put (%s)' % mode
            return r
    return {'confirmed': False, 'note': 'no result: %s' % p.stderr[-400:]}


def merge_batteries(*results):
    out = {'confirmed': False, 'problems': [], 'parts': []}
    for r in results:
        out['confirmed'] = out['confirmed'] or bool(r.get('confirmed'))
        out['problems'] += list(r.get('problems') or [])
        out['parts'].append(dict((k, v) for k, v in r.items()
                                 if k not in ('problems', 'stdout', 'stderr')))
    out['problems'] = out['problems'][:12]
    return out
