"""Native scenario batteries against the real CLIs of the tree under test.
They serve as replay builders for refuted obligations (a refutation is
confirmed when the battery shows the property broken on the real code) and
as the bounded differential checks of the thorough tier (never counted as
proof)."""
import fnmatch
import os

from pyvc.scenario import Sandbox


def _env(sb):
    vol = sb.path('vol')
    os.makedirs(vol, exist_ok=True)
    return {'TRASH_VOLUMES': vol}


def _home_trash(sb):
    return os.path.join(sb.home, '.local', 'share', 'Trash')


def purge_frame_battery(repo):
    """C11: symlinks in the trash are unlinked, never followed; nothing
    outside files/ and info/ changes"""
    problems = []
    runs = []
    for tool, args in (('trash-empty', ['-f']), ('trash-empty', ['-f', '0']),
                       ('trash-rm', ['*'])):
        with Sandbox(repo) as sb:
            td = _home_trash(sb)
            outside = sb.path('outside')
            os.makedirs(os.path.join(outside, 'd', 'deep'))
            with open(os.path.join(outside, 'd', 'deep', 'f'), 'w') as f:
                f.write('precious')
            with open(os.path.join(outside, 'g'), 'w') as f:
                f.write('precious2')
            sb.add_entry(td, 'linkdir', payload=('link', os.path.join(outside, 'd')))
            sb.add_entry(td, 'linkfile', payload=('link', os.path.join(outside, 'g')))
            sb.add_entry(td, 'dangling', payload=('link', '/nonexistent/x'))
            sb.add_entry(td, 'rel', payload=('link', '../../../../../outside/d'))
            sb.add_entry(td, 'tree', payload='dir')
            os.symlink(os.path.join(outside, 'd'),
                       os.path.join(td, 'files', 'tree', 'sub', 'inner'))
            sb.add_entry(td, 'plain')
            with open(os.path.join(td, 'directorysizes'), 'w') as f:
                f.write('x')
            os.symlink(os.path.join(outside, 'd'), os.path.join(td, 'files', 'orphanlink'))
            before = sb.snapshot()
            run = sb.run(tool, args, env=_env(sb))
            after = sb.snapshot()
            runs.append(run)
            for k in before:
                rel_td = os.path.relpath(os.path.join(sb.root, k), td)
                inside = rel_td.startswith('files/') or rel_td.startswith('info/')
                if not inside and before[k] != after.get(k):
                    problems.append('%s %s: %s changed: %r -> %r' % (
                        tool, args, k, before[k], after.get(k)))
            left = [k for k in after if '/Trash/files/' in '/' + k or '/Trash/info/' in '/' + k]
            if tool == 'trash-empty' and args == ['-f'] and left:
                problems.append('%s %s: not purged: %r' % (tool, args, left))
            if run['exit'] not in (0, None) or 'Traceback' in run['stderr']:
                problems.append('%s %s: exit %r stderr %s' % (
                    tool, args, run['exit'], run['stderr'][-300:]))
    return {'confirmed': bool(problems), 'problems': problems[:10],
            'runs': [r['cmd'] for r in runs]}


PATTERNS = ['foo', 'FOO', 'f*', '*.o', '?oo', '[fF]oo', '/abs/dir/foo', '/abs/*',
            '*', 'dir/foo', 'fo', '[!f]oo', 'a*b', '*[*', '/', 'foo*']
NAMES = ['/abs/dir/foo', '/abs/dir/Foo', '/abs/dir/FOO', '/abs/other/foo',
         '/abs/dir/foo.o', '/abs/dir/boo', '/abs/dir/a[b', '/abs/dir/fo',
         '/abs/dir/foobar', '/abs/dir/a*b', '/abs/dir/axb']


def rm_pattern_battery(repo, patterns=None):
    """C12: removed set == {entries whose basename (or full path for
    /-patterns) matches, case-sensitively}; survivors byte-identical"""
    problems = []
    for pat in (patterns or PATTERNS):
        with Sandbox(repo) as sb:
            td = _home_trash(sb)
            for i, n in enumerate(NAMES):
                sb.add_entry(td, 'e%d' % i, path=n.replace('%', '%25'))
            before = sb.snapshot(td)
            run = sb.run('trash-rm', [pat], env=_env(sb))
            after = sb.snapshot(td)
            for i, n in enumerate(NAMES):
                subject = n if pat[0:1] == '/' else os.path.basename(n)
                want = fnmatch.fnmatchcase(subject, pat)
                gone_p = ('files/e%d' % i) not in after
                gone_i = ('info/e%d.trashinfo' % i) not in after
                if gone_p != gone_i:
                    problems.append('%r: entry %s half removed' % (pat, n))
                elif gone_p != want:
                    problems.append('%r: %s removed=%s expected=%s' % (
                        pat, n, gone_p, want))
                elif not gone_p and (before['files/e%d' % i] != after['files/e%d' % i]
                                     or before['info/e%d.trashinfo' % i] != after['info/e%d.trashinfo' % i]):
                    problems.append('%r: survivor %s modified' % (pat, n))
            if 'Traceback' in run['stderr']:
                problems.append('%r: traceback %s' % (pat, run['stderr'][-200:]))
    return {'confirmed': bool(problems), 'problems': problems[:10]}


def dry_run_battery(repo):
    """C14: --dry-run changes nothing and prints exactly what the real run
    removes; negative replies change nothing"""
    problems = []

    def build(sb):
        td = _home_trash(sb)
        sb.add_entry(td, 'old', date='2000-01-01T00:00:00')
        sb.add_entry(td, 'new', date='2999-01-01T00:00:00')
        sb.add_entry(td, 'undated', date=None)
        sb.add_entry(td, 'tree', payload='dir', date='2000-01-01T00:00:00')
        with open(os.path.join(td, 'files', 'orphan'), 'w') as f:
            f.write('o')
        with open(os.path.join(td, 'info', 'notinfo.txt'), 'w') as f:
            f.write('o')
        return td
    for args in ([], ['30'], ['0'], ['-v'], ['99999']):
        with Sandbox(repo) as sb:
            td = build(sb)
            env = dict(_env(sb), TRASH_DATE='2020-01-01T00:00:00')
            before = sb.snapshot()
            dry = sb.run('trash-empty', ['-f', '--dry-run'] + args, env=env)
            mid = sb.snapshot()
            if mid != before:
                problems.append('--dry-run %s changed the trash' % args)
            printed = sorted(l[len('would remove '):] for l in
                             dry['stdout'].split('\n') if l.startswith('would remove '))
            real = sb.run('trash-empty', ['-f'] + args, env=env)
            after = sb.snapshot()
            removed = sorted(os.path.join(sb.root, k) for k in before
                             if k not in after)
            # printed paths are top-level entries; removed contains subtrees
            top_removed = sorted(p for p in removed
                                 if os.path.dirname(p) in (os.path.join(td, 'files'),
                                                           os.path.join(td, 'info')))
            printed_existing = sorted(p for p in printed if os.path.lexists(p) or
                                      os.path.relpath(p, sb.root) in before)
            if printed_existing != top_removed:
                problems.append('%s: printed %r but removed %r' % (
                    args, printed_existing, top_removed))
    for reply in ['', 'n', 'N', 'no', ' y', 'ny', 'q', '\xff', 'ÿ', None]:
        with Sandbox(repo) as sb:
            td = build(sb)
            before = sb.snapshot()
            run = sb.run('trash-empty', ['-i'], env=_env(sb),
                         stdin=('' if reply is None else reply + '\n'))
            after = sb.snapshot()
            if before != after:
                problems.append('reply %r changed the trash' % (reply,))
    for reply in ['y', 'Y', 'yes', 'Yup']:
        with Sandbox(repo) as sb:
            td = build(sb)
            run = sb.run('trash-empty', ['-i'], env=_env(sb), stdin=reply + '\n')
            after = sb.snapshot(td)
            if any(k.startswith('files/') for k in after):
                problems.append('reply %r did not purge' % reply)
    return {'confirmed': bool(problems), 'problems': problems[:10]}


def _stranded(snap):
    """payloads under files/ whose info is missing"""
    out = []
    for k in snap:
        parts = k.split('/')
        if len(parts) == 2 and parts[0] == 'files':
            if 'info/%s.trashinfo' % parts[1] not in snap:
                out.append(k)
    return out


def kill_points_purge(repo, max_ops=40):
    """C15 (empty, rm): kill at every mutating operation; no payload may be
    left without its info; a re-run completes the purge"""
    problems = []
    explored = 0
    for tool, args in (('trash-empty', ['-f']), ('trash-rm', ['*'])):
        k = 1
        while k <= max_ops:
            with Sandbox(repo) as sb:
                td = _home_trash(sb)
                sb.add_entry(td, 'a')
                sb.add_entry(td, 'tree', payload='dir')
                sb.add_entry(td, 'lnk', payload=('link', '/nonexistent'))
                run = sb.run_faulty(tool, args, {'kill_at': k}, env=_env(sb))
                snap = sb.snapshot(td)
                explored += 1
                st = _stranded(snap)
                if st:
                    problems.append('%s killed at op %d: payload without info: %r'
                                    % (tool, k, st))
                rerun = sb.run(tool, args, env=_env(sb))
                snap2 = sb.snapshot(td)
                left = [x for x in snap2 if x.startswith('files/') or x.startswith('info/')]
                if left:
                    problems.append('%s killed at op %d: re-run left %r' % (tool, k, left))
                if run['exit'] != 99:
                    break
            k += 1
    return {'confirmed': bool(problems), 'problems': problems[:10],
            'kill_points_explored': explored}
