"""C05: killing trash-put at any instant loses nothing and leaves no orphan
payload."""
from . import put, trashdirs, purge, scenarios

PROPERTY = 'C05'

def _base(S):
    S.install([trashdirs.VolumeOf(), trashdirs.HomeTrashDirPath(), put.MkdirP(),
               put.ForFile(), put.PutMove(), put.PutRemoveFile()],
              loops={trashdirs.VOLUME_OF_LOOP: trashdirs.volume_of_loop_annot()})
    return [trashdirs.VolumeOf().key, trashdirs.HomeTrashDirPath().key]

LEVEL_NOTE = ('the monitor invariant is checked on every path, and every prefix '
              'of a path is a path of the VC (each primitive forks), so the '
              'order - info created exclusively and fully written, then the '
              'payload moved by one rename - holds at every kill point between '
              'two modelled events; atomic_write is one open/one write/close')
EXPECTED = [
    'put/monitor/move-only-after-the-info-is-written',
    'put/monitor/content-written-is-the-prepared-content',
    'put/monitor/one-reservation-at-a-time',
    'trashcli.fs.RealAtomicWrite.atomic_write/post/writes-the-whole-content-to-that-file',
    'trashcli.fs.RealAtomicWrite.atomic_write/post/single-write',
    'trashcli.fs.RealAtomicWrite.atomic_write/post/exclusive-create-0600',
    'trashcli.put.fs.real_fs.RealFs.move/post/starts-with-one-rename-of-src-to-dest',
    'trashcli.put.fs.real_fs.RealFs.move/post/fallback-only-after-EXDEV',
    'trashcli.put.janitor_tools.put_trash_dir.PutTrashDir.try_trash/post/one-move-then-at-most-one-cleanup',
    'put/attempt/used-only-on-the-files-own-volume',
]


def build(S, tier, seed):
    act = put.leaf_vcs(S)
    put.trash_file_in_vc(S, conservation=False)


def _battery(S, r, o):
    return scenarios.merge_batteries(
        scenarios.put_kill_battery(S.interp.repo),
        scenarios.put_xdev_battery(S.interp.repo, 'kill'))


REPLAYERS = {'': _battery}


KF_CLASSES = {}


def finalize_args(S, tier, seed):
    return {'extra_assumptions': [
        'each syscall is atomic with respect to a kill; a kill between os.open '
        'and os.write leaves an empty info with NO payload (allowed)',
        'shutil.move internals follow the copy-then-delete phase model (only '
        'reachable after EXDEV, i.e. with the home fallback or bind mounts)']}
