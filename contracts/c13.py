"""C13: trash-restore offers the right entries and restores exactly the
indices chosen."""
from . import restore, options, purge, readers

PROPERTY = 'C13'
LEVEL_NOTE = ('scope predicate == component-boundary spec for every pair of '
              'paths; per-part semantics of the reply grammar for an arbitrary '
              'number of parts (loop cut at the parts loop); pipeline VC '
              '(listing numbered from 0, validation before any restore, '
              'entries restored == entries denoted, empty reply / EOF restore '
              'nothing, invalid reply exits non-zero) for every reply of at '
              'most 2 parts with ranges of at most 2 elements: that bound is a '
              'BOUNDED stand-in, the rest is unbounded')
EXPECTED = [
    'restore-options/the-default-directory-is-the-current-one',
    'restore-reader/offered-iff-well-formed',
    'trashcli.lib.path_of_backup_copy.path_of_backup_copy/post/payload-is-files-slash-stem',
    'restore-options/overwrite-only-with-its-flag',
    'restore-options/sort-key-maps-to-its-mode',
    'restore-options/path-is-the-operand-under-the-current-directory-normalised',
    'restore-options/trash-dir-is-the-option-value',
    'trashcli.restore.trashed_file.TrashedFile.original_location_matches_path/post/component-boundary-scope',
    'parse_indexes/part/single-is-the-integer-of-a-dashless-part',
    'parse_indexes/part/range-is-a-b-with-both-ends-integers',
    'parse_indexes/invalid-reply-raises-InvalidEntry-or-ValueError',
    'pipeline/lists-every-entry-numbered-from-0',
    'pipeline/line-i-shows-entry-i',
    'pipeline/restored-are-exactly-the-denoted-entries-in-order',
    'pipeline/restore-only-after-full-validation',
    'pipeline/empty-reply-restores-nothing',
    'pipeline/invalid-reply-exits-non-zero',
    'sort/result-is-a-list-permutation',
]


def build(S, tier, seed):
    purge.leaf_vcs(S)           # parse_path, parse_deletion_date, path_of_backup_copy
    readers.restore_reader_vc(S)  # which entries are read, with which payload
    S.verify(restore.ScopeMatch())
    restore.restore_one_vc(S)
    restore.parse_part_vc(S)
    restore.pipeline_vc(S)
    restore.sort_vc(S)
    options.restore_options_vc(S)


def reply_battery(repo):
    """bounded differential: replies over a small alphabet against an
    independent denotation"""
    import itertools, os
    from pyvc.scenario import Sandbox
    problems = []
    replies = ['0', '1', '2', '0,2', '0-1', '1-2', '0-2', '2-0', '0,0', '3',
               '0-3', '-1', '1-', '', 'a', '0,a', ' 1', '1 ', '0,,1', '0-1-2',
               '0, 2', '+1', '00', '1-1', '0-0,2-2']

    def denote(reply, n):
        out = []
        for part in reply.split(','):
            if '-' in part:
                bits = part.split('-')
                if len(bits) != 2 or bits[0] == '' or bits[1] == '':
                    return None
                try:
                    a, b = int(bits[0]), int(bits[1])
                except ValueError:
                    return None
                out.extend(range(a, b + 1))
            else:
                try:
                    out.append(int(part))
                except ValueError:
                    return None
        if any(i < 0 or i >= n for i in out):
            return None
        return out
    for reply in replies:
        with Sandbox(repo) as sb:
            td = sb.path('T')
            work = sb.path('work')
            os.makedirs(work)
            names = ['a', 'b', 'c']
            for i, nm in enumerate(names):
                sb.add_entry(td, nm, path=os.path.join(work, nm),
                             date='2000-01-0%dT00:00:00' % (i + 1))
            run = sb.run('trash-restore', ['--trash-dir', td, work],
                         stdin=reply + '\n', cwd=work)
            after = sb.snapshot()
            den = denote(reply, 3) if reply != '' else []
            restored = sorted(nm for nm in names if 'work/' + nm in after)
            if den is None:
                if restored or run['exit'] == 0:
                    problems.append('%r: invalid reply restored %r exit %r' % (
                        reply, restored, run['exit']))
            else:
                want = sorted(set(names[i] for i in den))
                # a duplicated index fails on the second restore (exists)
                if len(set(den)) == len(den) and restored != want:
                    problems.append('%r: restored %r expected %r' % (
                        reply, restored, want))
    # scope: the entries offered for a directory are those at or beneath it
    # at a component boundary - siblings whose name merely starts with the
    # same characters, and directories whose name contains glob characters
    with Sandbox(repo) as sb:
        td = sb.path('T')
        work = sb.path('work')
        locs = {'e1': 'a/foo/x', 'e2': 'a/foobar/y', 'e3': 'a/foobar', 'e4': 'a/foo',
                'e5': 'a/Miles [1959]/z', 'e6': 'a/M/z', 'e7': 'a/fo'}
        for nm, rel in locs.items():
            sb.add_entry(td, nm, path=os.path.join(work, rel))
        os.makedirs(os.path.join(work, 'a', 'Miles [1959]'))
        for arg, want in (('a/foo', {'a/foo/x', 'a/foo'}),
                          ('a/foobar', {'a/foobar/y', 'a/foobar'}),
                          ('a/Miles [1959]', {'a/Miles [1959]/z'}),
                          ('a', set(locs.values()))):
            run = sb.run('trash-restore', ['--trash-dir', td, os.path.join(work, arg)],
                         stdin='\n', cwd=sb.root)
            shown = set()
            for l in run['stdout'].split('\n'):
                if l.strip()[:1].isdigit() and work in l:
                    shown.add(l.split(work + '/', 1)[1])
            if shown != want:
                problems.append('trash-restore %s offers %r, the entries at or beneath '
                                'it are %r' % (arg, sorted(shown), sorted(want)))
        # from the root directory: no operand, and an operand relative to '/'
        for args in ([], [work.lstrip('/')]):
            run = sb.run('trash-restore', ['--trash-dir', td] + args, stdin='\n', cwd='/')
            n = len([l for l in run['stdout'].split('\n')
                     if l.strip()[:1].isdigit() and work in l])
            if n != len(locs):
                problems.append('trash-restore %s run from / offers %d of the %d entries'
                                % (' '.join(args), n, len(locs)))
    return {'confirmed': bool(problems), 'problems': problems[:10],
            'bounded': '%d literal replies x 3 entries' % len(replies)}


def _battery(S, r, o):
    return reply_battery(S.interp.repo)


def _scope_replayer():
    import z3
    from pyvc.replay import pure_replayer

    def violated(args, out):
        if 'result' not in out:
            return True
        loc, p = args['loc'], args['path']
        want = (p == '/') or loc == p or loc.startswith(p + '/')
        return out['result'] != want
    return pure_replayer(
        {'loc': z3.String('arg.original_location'), 'path': z3.String('arg.path')},
        'trashcli.restore.trashed_file',
        'TrashedFile.original_location_matches_path', violated,
        build_args=lambda c: [c['path']],
        self_spec=None)


def _scope(S, r, o):
    import z3
    from pyvc.replay import get_model, conc, run_real
    m = get_model(o)
    if m is None:
        return {'confirmed': False, 'note': 'no model'}
    loc = conc(m, z3.String('arg.original_location'))
    p = conc(m, z3.String('arg.path'))
    out = run_real('trashcli.restore.trashed_file',
                   'TrashedFile.original_location_matches_path', [p],
                   self_spec={'__obj__': ['trashcli.restore.trashed_file',
                                          'TrashedFile'],
                              'args': [loc, None, 'info', 'file']},
                   repo=S.interp.repo)
    want = (p == '/') or loc == p or loc.startswith(p + '/')
    return {'confirmed': out.get('result') is not None and
            out.get('result') != want,
            'inputs': {'original_location': loc, 'path': p},
            'real_outcome': out, 'expected': want}


REPLAYERS = {
    'trashcli.restore.trashed_file.TrashedFile.original_location_matches_path':
        _scope,
    '': _battery}
KF_CLASSES = {}


def finalize_args(S, tier, seed):
    return {'bounded': [{'what': 'pipeline VC restricted to replies of <= 2 '
                                 'comma-separated parts, ranges of <= 2 '
                                 'elements, lists of 0 or 2 entries',
                         'bounded_cuts': getattr(S.stats, 'bounded_cuts', 0),
                         'counts_as_proof': False}],
            'extra_assumptions': ['argparse is modelled (pyvc/argmodel.py) for '
                                  'canonical argument vectors; the option VC '
                                  'restore-options is bounded to <= 2 option '
                                  'tokens and <= 1 operand']}
