"""C11: purging touches nothing outside files/ and info/ and follows no
symlink."""
from . import purge, scenarios

PROPERTY = 'C11'
LEVEL_NOTE = ('frame obligations on every removal reachable from '
              'Emptier.do_empty and RmCmd.run, the path_of_backup_copy '
              'contract and its precondition at each call site, and the '
              'remove_file2 / remove_file_if_exists contracts (unlink first, '
              'rmtree only on real directories) are discharged for every '
              'directory content, trash-dir spelling and fault outcome')
EXPECTED = [
    'trashcli.fs.RealRemoveFile2.remove_file2/post/touches-only-the-named-entry',
    'trashcli.fs.RealRemoveFile2.remove_file2/post/rmtree-only-on-real-directories',
    'trashcli.fs.RealRemoveFile2.remove_file2/post/gone-on-return',
    'nofault/remove_file2/post/total-without-faults',
    'trashcli.fs.RealRemoveFileIfExists.remove_file_if_exists/post/acts-iff-lexists',
    'trashcli.lib.path_of_backup_copy.path_of_backup_copy/post/payload-is-files-slash-stem',
    'trashcli.lib.path_of_backup_copy.path_of_backup_copy/pre@Emptier.files_to_delete',
    'trashcli.lib.path_of_backup_copy.path_of_backup_copy/pre@CleanableTrashcan.delete_trash_info_and_backup_copy',
    'empty/frame/removal-under-files-or-info',
    'empty/payload-under-files-of-this-trash-dir',
    'empty/orphan-removed-is-this-entry',
    'rm/frame/removal-under-files-or-info',
    'rm/entry-removed-whole-payload-then-info',
]


def build(S, tier, seed):
    purge.leaf_vcs(S)
    purge.empty_vc(S, dry_run=False)
    purge.rm_vc(S)


def _battery(S, r, o):
    return scenarios.purge_frame_battery(S.interp.repo)


REPLAYERS = {'': _battery}
KF_CLASSES = {}
