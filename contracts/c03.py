"""C03: every .trashinfo is spec-conformant and decodes back to the exact
path and time."""
import os

import z3

from pyvc import spec
from pyvc.values import Sym, mk, PyExc
from pyvc.libmodels import DateV, DATE_MAX_US, ALWAYS_SAFE
from . import put, trashdirs, purge, dates, scenarios
from .common import SV, T, arg_str

PROPERTY = 'C03'
LEVEL_NOTE = ('make_trashinfo_data: the content is exactly "[Trash Info]\\n'
              'Path=" + quote(location, safe) + "\\nDeletionDate=" + '
              'strftime(now) + "\\n" with the location absolute (home) or '
              'relative to the volume without ".." (volume trash dirs); the '
              'readers\' parse_path / parse_deletion_date are symbolically '
              'executed on that text (line structure from the alphabet of the '
              'escaper) and return unquote(quote(location)) and the date '
              'written; unquote(quote(s)) = s is an induction over the bytes of '
              's whose step is discharged per concrete byte (256 VCs) for the '
              'safe set and the decoder found in the source')
EXPECTED = [
    'trashcli.put.janitor_tools.info_creator.TrashInfoCreator.make_trashinfo_data/post/content-is-the-spec-text-for-the-location-and-now',
    'trashcli.put.janitor_tools.info_creator.TrashInfoCreator.make_trashinfo_data/post/home-trash-records-the-absolute-location',
    'trashcli.put.janitor_tools.info_creator.TrashInfoCreator.make_trashinfo_data/post/volume-trash-records-a-relative-location',
    'trashcli.put.original_location.OriginalLocation.for_file/post/relative-location-is-relative',
    'trashcli.put.original_location.OriginalLocation.for_file/post/relative-location-has-no-dotdot',
    'put/lemma/joining-keeps-dotdot-out',
    'put/lemma/rest-of-a-clean-path',
    'roundtrip/parse_path-of-written-text-is-unquote-of-quote',
    'roundtrip/reader-date-is-the-date-written',
    'roundtrip/reader-format-is-prefix-plus-writer-format',
    'lemma/percent-encoding/byte',
    'lemma/percent-encoding/escaper-and-decoder-found',
    'trashcli.parse_trashinfo.parse_path.parse_path/post/decoder-is-unquote',
    'list-reader/line-is-date-space-absolute-path',
    'restore-reader/location-is-volume-joined-with-first-Path',
]

HEX = '0123456789ABCDEFabcdef'


def enc_byte(b, safe):
    c = chr(b)
    if c in ALWAYS_SAFE or c in safe:
        return c
    return '%%%02X' % b


def byte_lemma(b, safe, plus):
    """the induction step for byte b: for every tail y,
    dec(enc(b) ++ y) = chr(b) ++ dec(y), with dec unfolded once.
    Returns (verdict, witness)."""
    y = z3.String('y')
    e = enc_byte(b, safe)
    t = z3.Concat(z3.StringVal(e), y) if e else y
    if plus:
        # unquote_plus: '+' -> ' ' first
        e2 = e.replace('+', ' ')
    else:
        e2 = e
    # one unfolding of dec on (e2 ++ y)
    ishex = lambda c: z3.Or(*[c == z3.StringVal(h) for h in HEX])
    s = z3.Solver()
    s.set('timeout', 10000)
    first = e2[0]
    if first != '%':
        # dec(c ++ rest) = c ++ dec(rest): the step holds iff c is the byte
        # and (for a 3-char escape never happens)
        ok = (len(e2) == 1 and e2 == chr(b))
        return ('unsat' if ok else 'sat'), (None if ok else {'tail': ''})
    # first char is '%': look at the next two characters of e2 ++ y
    rest = z3.Concat(z3.StringVal(e2[1:]), y) if len(e2) > 1 else y
    c1 = z3.SubString(rest, 0, 1)
    c2 = z3.SubString(rest, 1, 1)
    is_escape = z3.And(z3.Length(rest) >= 2, ishex(c1), ishex(c2))
    if len(e2) == 3:
        # enc(b) = %XX: the escape is decoded to chr(int(XX,16)) and the tail
        # is exactly y
        ok = (e2[1] in HEX and e2[2] in HEX and int(e2[1:], 16) == b)
        return ('unsat' if ok else 'sat'), (None if ok else {'tail': ''})
    # enc(b) = '%' itself ('%' in safe): wrong whenever y starts with 2 hex
    s.add(is_escape)
    r = s.check()
    if r == z3.sat:
        m = s.model()
        tail = m.eval(y, model_completion=True).as_string()
        return 'sat', {'tail': tail}
    return ('unsat' if r == z3.unsat else 'unknown'), None


def build(S, tier, seed, with_readers=True):
    S.install([trashdirs.VolumeOf(), trashdirs.HomeTrashDirPath(), put.ForFile()],
              loops={trashdirs.VOLUME_OF_LOOP: trashdirs.volume_of_loop_annot(),
                     dates.PARSE_LOOP: dates.parse_loop_annot(),
                     purge.PARSE_PATH_LOOP: purge.parse_path_loop_annot()})
    act = [trashdirs.VolumeOf().key, trashdirs.HomeTrashDirPath().key]
    S.verify(put.ForFile())
    S.lemma('put/lemma/rest-of-a-clean-path', put.lemma_rest_of_clean_path)
    S.lemma('put/lemma/joining-keeps-dotdot-out', put.lemma_join_keeps_dotdot_out)
    S.verify(dates.MaybeParseDeletionDate())
    found = {'safe': set(), 'decoders': set()}
    orig_quote = S.interp.lib.lib_quote

    def spy_quote(I, a, k):
        safe = a[1] if len(a) > 1 else k.get('safe', '/')
        if isinstance(safe, str):
            found['safe'].add(safe)
        return orig_quote(I, a, k)
    S.interp.lib.registry['urllib.parse.quote'].fn = spy_quote
    S.verify(put.MakeTrashinfoData(), active=[put.ForFile().key] + act)
    S.verify(purge.ParsePath())
    S.verify(dates.ParseDeletionDate())
    roundtrip_vc(S, found)
    S.interp.lib.registry['urllib.parse.quote'].fn = orig_quote
    if with_readers:
        # what the commands really read: contents_of -> parse_path -> join
        from . import readers
        S.verify(purge.PathOfBackupCopy())
        readers.list_reader_vc(S)
        readers.restore_reader_vc(S)
    # the per-byte induction steps, for what the source really uses
    safes = sorted(found['safe'])
    decs = sorted(found['decoders'])
    S.lemma('lemma/percent-encoding/escaper-and-decoder-found',
            lambda V: z3.BoolVal(len(safes) == 1 and len(decs) == 1))
    S.byte_lemmas = []
    if len(safes) == 1 and len(decs) == 1:
        safe, dec = safes[0], decs[0]
        bad = []
        unknown = []
        for b in range(1, 256):
            v, w = byte_lemma(b, safe, dec == 'unquote_plus')
            if v == 'sat':
                bad.append((b, w))
            elif v != 'unsat':
                unknown.append(b)
        S.byte_lemmas = [{'safe': safe, 'decoder': dec, 'bytes': 255,
                          'refuted': [b for b, _w in bad][:5]}]
        S.byte_witness = bad[:1]

        def goal(V, b):
            return z3.BoolVal(b not in [x for x, _ in bad] and b not in unknown)
        for b in range(1, 256):
            S.lemma('lemma/percent-encoding/byte[%d]' % b,
                    lambda V, b=b: goal(V, b))


def roundtrip_vc(S, found, prefix='roundtrip'):
    """the real readers on the real writer's text"""
    contracts = []

    def body(V):
        ctx = V.ctx
        loc = arg_str('location')
        us = z3.Int('arg.now')
        ctx.assume(z3.And(us >= 31536000000000 * 1000, us <= DATE_MAX_US))
        now = DateV(us)
        fmt = S.resolve('trashcli.put.format_trash_info', 'format_trashinfo')
        S.note_function('trashcli.put.format_trash_info', 'format_original_location')
        S.note_function('trashcli.put.format_trash_info', 'format_date')
        pp = S.resolve('trashcli.parse_trashinfo.parse_path', 'parse_path')
        pd = S.resolve('trashcli.parse_trashinfo.parse_deletion_date',
                       'parse_deletion_date')
        S.note_function('trashcli.parse_trashinfo.parse_trashinfo',
                  'ParseTrashInfo.parse_trashinfo')
        try:
            content = V.I.call_function(fmt, [], {'original_location': loc,
                                                  'deletion_date': now})
        except PyExc as pe:
            # un-encodable location: nothing is written (C16 handles it)
            return
        want = put.trashinfo_text(loc.t, us)
        ctx.oblige(prefix + '/written-text-is-the-spec-text',
                   content.t == want)
        # what a reader gets: the bytes decoded (ASCII: identity)
        text = Sym(want, 'str')
        for _t, safe, _r in ctx.notes.get('quote_calls', []):
            found['safe'].add(safe)
        ctx.notes['unquote_calls'] = []
        try:
            r = V.I.call_function(pp, [], {'contents': text})
        except PyExc as pe:
            ctx.oblige(prefix + '/parse_path-accepts-the-written-text',
                       z3.BoolVal(False), info={'exception': pe.value.cls.name})
            return
        for _t, name in ctx.notes.get('unquote_calls', []):
            found['decoders'].add(name)
        dec = {'unquote': spec.unquote_f, 'unquote_plus': spec.unquote_plus_f}
        decs = [n for _t, n in ctx.notes.get('unquote_calls', [])]
        q = spec.quote_f(loc.t, SV('/'))
        if len(decs) == 1 and decs[0] in dec:
            ctx.oblige(prefix + '/parse_path-of-written-text-is-unquote-of-quote',
                       T(r) == dec[decs[0]](q))
        else:
            ctx.oblige(prefix + '/parse_path-of-written-text-is-unquote-of-quote',
                       z3.BoolVal(False))
        # the date
        ctx.ghost['basket_initial'] = None
        fmts_before = set(k for k in ctx.notes if k[0:1] == ('strptime_fmt',))
        d = V.I.call_function(pd, [], {'contents': text})
        rf = ctx.notes.get('strptime_formats', [])
        wf = [k[1] for k in ctx.notes if isinstance(k, tuple) and
              k[0] == 'strftime']
        ctx.oblige(prefix + '/reader-format-is-prefix-plus-writer-format',
                   z3.BoolVal(len(wf) >= 1 and len(rf) >= 1 and all(
                       f == 'DeletionDate=' + wf[0] for f in rf)),
                   info={'reader': rf, 'writer': wf})
        sec = 1000000
        if isinstance(d, DateV):
            ctx.oblige(prefix + '/reader-date-is-the-date-written',
                       d.us == us - us % sec)
        else:
            ctx.oblige(prefix + '/reader-date-is-the-date-written',
                       z3.BoolVal(False))
        ctx.cover(prefix + '/cover-end')

    S.run_paths(prefix, body)


def name_battery(repo, seed=0, n=40):
    """bounded: real trash-put then decode Path= by the spec's rule, for
    generated names over all byte values"""
    import random
    from urllib.parse import unquote_to_bytes
    from pyvc.scenario import Sandbox
    rnd = random.Random(seed)
    problems = []
    names = [b'plain', b'sp ace', b'per%cent', b'plus+plus', b'new\nline',
             b'q?x#y', b'[br]=', b'caf\xc3\xa9', b'%41', b'\xe2\x82\xac', b'-dash',
             b'notes\n', b'draft ', b'tab\t', b' lead', b'cr\r', b'a+b', b'c++ notes']
    for _ in range(n):
        ln = rnd.randint(1, 12)
        bs = bytes(rnd.choice([c for c in range(1, 256) if c != 47])
                   for _ in range(ln))
        names.append(bs)
    for bs in names:
        if bs in (b'.', b'..'):
            continue
        with Sandbox(repo) as sb:
            work = sb.path('work')
            os.makedirs(work)
            p = os.path.join(os.fsencode(work), bs)
            open(p, 'wb').write(b'x')
            td = sb.path('T')
            run = sb.run('trash-put', ['--trash-dir', td, '--',
                                       os.fsdecode(p)], cwd=work)
            infos = [f for f in os.listdir(os.fsencode(os.path.join(td, 'info')))] \
                if os.path.isdir(os.path.join(td, 'info')) else []
            if run['exit'] != 0:
                try:
                    bs.decode('utf-8')
                    problems.append('%r: put failed: %s' % (bs, run['stderr'][-200:]))
                except UnicodeDecodeError:
                    if infos or 'Traceback' in run['stderr']:
                        problems.append('%r: un-encodable name left %r / %s' % (
                            bs, infos, run['stderr'][-100:]))
                continue
            if len(infos) != 1:
                problems.append('%r: %d info files' % (bs, len(infos)))
                continue
            raw = open(os.path.join(os.fsencode(td), b'info', infos[0]), 'rb').read()
            lines = raw.split(b'\n')
            if lines[0] != b'[Trash Info]' or not lines[1].startswith(b'Path=') \
                    or not lines[2].startswith(b'DeletionDate=') or lines[3:] != [b'']:
                problems.append('%r: malformed info %r' % (bs, raw))
                continue
            got = unquote_to_bytes(lines[1][5:])
            rel = os.path.relpath(p, os.fsencode(sb.root))
            # --trash-dir on the sandbox volume: relative to that volume
            if not (p.endswith(got) and got.endswith(bs)):
                problems.append('%r: Path decodes to %r' % (bs, got))
            import re
            if not re.match(rb'^DeletionDate=\d{4}-\d\d-\d\dT\d\d:\d\d:\d\d$', lines[2]):
                problems.append('%r: bad date line %r' % (bs, lines[2]))
            # the readers must give back the exact name, byte for byte
            os.remove(p) if os.path.lexists(p) else None
            rs = sb.run('trash-restore', ['--trash-dir', td, work], stdin='0\n',
                        cwd=work)
            if not os.path.lexists(p):
                problems.append('%r: trash-restore did not recreate the exact '
                                'name; work dir has %r' % (bs, os.listdir(os.fsencode(work))))
                continue
            sb.run('trash-put', ['--trash-dir', td, '--', os.fsdecode(p)], cwd=work)
            lst = sb.run('trash-list', ['--trash-dir', td])
            # (the harness reads stdout in text mode: '\r' is translated, so
            # names with a carriage return are compared on the restore side only)
            if os.fsdecode(bs) not in lst['stdout'] and b'\n' not in bs \
                    and b'\r' not in bs:
                try:
                    bs.decode('utf-8')
                    problems.append('%r: trash-list does not show it: %r' % (
                        bs, lst['stdout'][-200:]))
                except UnicodeDecodeError:
                    pass
    # "any depth, names up to 255 bytes": a deep path of long multi-byte names
    # (raw < PATH_MAX, escaped form > 5 KB) and a 255-byte name
    for levels, width, leaf in ((8, 80, 'file.txt'), (1, 1, '\u4e07' * 85)):
        with Sandbox(repo) as sb:
            work = sb.path('w')
            d = work
            for k in range(levels):
                d = os.path.join(d, chr(0x4e00 + k) * width)
            os.makedirs(d)
            p = os.path.join(d, leaf)
            open(p, 'w').write('x')
            td = sb.path('T')
            run = sb.run('trash-put', ['--trash-dir', td, '--', p], cwd=work)
            tag = 'deep path (%d levels of %d CJK chars, leaf of %d bytes)' % (
                levels, width, len(leaf.encode()))
            if run['exit'] != 0 or os.path.lexists(p):
                problems.append('%s: put failed: %s' % (tag, run['stderr'][-200:]))
                continue
            lst = sb.run('trash-list', ['--trash-dir', td])
            if not lst['stdout'].rstrip('\n').endswith(' ' + p) or \
                    lst['stdout'].startswith('?'):
                problems.append('%s: trash-list prints %r...%r' % (
                    tag, lst['stdout'][:25], lst['stdout'][-40:]))
            rs = sb.run('trash-restore', ['--trash-dir', td, work], stdin='0\n',
                        cwd=work)
            if not os.path.lexists(p):
                problems.append('%s: trash-restore did not put it back at the '
                                'exact original location' % tag)
    # a foreign info (literal '+', '%2B', mixed case escapes): the readers must
    # decode by the spec's rule
    with Sandbox(repo) as sb:
        td = sb.path('T')
        for i, (raw, want) in enumerate([('/f/a+b', '/f/a+b'), ('/f/a%2Bb', '/f/a+b'),
                                         ('/f/a%20b', '/f/a b'), ('/f/%e2%82%ac', '/f/\u20ac')]):
            sb.add_entry(td, 'e%d' % i, path=raw)
        lst = sb.run('trash-list', ['--trash-dir', td])
        for raw, want in [('/f/a+b', '/f/a+b'), ('/f/a%2Bb', '/f/a+b'),
                          ('/f/a%20b', '/f/a b')]:
            if not any(l.endswith(' ' + want) for l in lst['stdout'].split('\n')):
                problems.append('foreign Path=%s not shown as %r' % (raw, want))
    return {'confirmed': bool(problems), 'problems': problems[:10],
            'names': len(names)}


def _bytes(S, r, o):
    w = getattr(S, 'byte_witness', None)
    if not w:
        return {'confirmed': False, 'note': 'no byte witness'}
    b, wit = w[0]
    bl = S.byte_lemmas[0]
    name = (chr(b) + (wit or {}).get('tail', '')).encode('latin-1')
    from pyvc.replay import run_real
    quoted = run_real('trashcli.put.format_trash_info', 'format_original_location',
                      ['/d/' + name.decode('latin-1')], repo=S.interp.repo)
    back = run_real('trashcli.parse_trashinfo.parse_path', 'parse_path',
                    ['[Trash Info]\nPath=%s\n' % quoted.get('result')],
                    repo=S.interp.repo)
    return {'confirmed': back.get('result') != '/d/' + name.decode('latin-1'),
            'byte': b, 'tail': wit, 'escaped': quoted, 'decoded': back,
            'original': '/d/' + name.decode('latin-1')}


def _battery(S, r, o):
    return name_battery(S.interp.repo)


REPLAYERS = {'lemma/percent-encoding/byte': _bytes, '': _battery}
KF_CLASSES = {}


def finalize_args(S, tier, seed):
    return {'extra_assumptions': [
        'urllib.parse.quote/unquote are enc(utf8(s)) / utf8_replace(dec(t)) with '
        'the per-byte definitions of this file (validated against CPython in '
        'the thorough tier); utf8 decode(encode(s)) = s for surrogate-free s',
        'induction over the bytes of the location: the schema is stated, the '
        'step is discharged per concrete byte',
        'strftime/strptime: strptime(p + strftime(d, F), p + F) = d truncated '
        'to seconds for 1000 <= year (axiom, validated on random dates)',
        'names that cannot be UTF-8 encoded are refused by trash-put (no '
        '.trashinfo is written for them)'],
        'bounded': [{'what': 'per-byte lemma VCs', 'detail': getattr(
            S, 'byte_lemmas', []), 'counts_as_proof': True}]}
