"""C09: trash-list shows exactly what is in the trash after any history of
commands."""
import os
import z3
from pyvc import spec
from . import (put, trashdirs, purge, dates, restore, readers, scenarios, c03,
               options)
from .common import SV

PROPERTY = 'C09'
LEVEL_NOTE = ('abstract view = bag of (join(V, unquote(first Path line)), first '
              'DeletionDate) over the *.trashinfo entries of the scanned trash '
              'directories.  list-reader VC: stdout is exactly one line per '
              'element of the view (arbitrary listing, content, scanner '
              'events).  View-update steps, each a discharged VC: put success '
              'adds exactly one exclusively created info that decodes to the '
              'original location and now (put monitor + C03 round trip); put '
              'failure adds nothing; restore removes exactly the chosen '
              'entry\'s info (restorer VC); rm removes exactly the matching '
              'entries (rm VC); empty removes exactly the old-enough ones '
              '(empty VC).  The induction over the history is the standard '
              'schema, stated.')
EXPECTED = [
    'list-action/every-message-is-printed-exactly-once',
    'list-options/trash-dirs-are-the-option-values-in-order',
    'list-options/action-is-listing-unless-the-last-action-flag-says-otherwise',
    'list-reader/one-line-iff-well-formed',
    'list-reader/line-is-date-space-absolute-path',
    'list-reader/at-most-one-message-per-entry',
    'scanner/top-trash-dir-used-iff-secure-and-present',
    'scanner/alt-trash-dir-used-iff-directory',
    'scanner-home/home-trash-is-found-and-paired-with-root',
    'put/attempt/success-means-trashed',
    'put/attempt/failure-leaves-no-reservation-behind',
    'put/monitor/one-reservation-at-a-time',
    'roundtrip/parse_path-of-written-text-is-unquote-of-quote',
    'roundtrip/reader-date-is-the-date-written',
    'restore/only-the-info-file-is-removed',
    'rm/removed-iff-original-name-matches',
    'empty/purged-iff-old-enough',
    'lemma/C09/put-adds-exactly-the-original-path',
]


def build(S, tier, seed):
    S.install([trashdirs.VolumeOf(), trashdirs.HomeTrashDirPath(), put.MkdirP(),
               put.ForFile(), put.PutMove(), put.PutRemoveFile()],
              loops={trashdirs.VOLUME_OF_LOOP: trashdirs.volume_of_loop_annot(),
                     dates.PARSE_LOOP: dates.parse_loop_annot(),
                     purge.PARSE_PATH_LOOP: purge.parse_path_loop_annot()})
    c03.build(S, tier, seed, with_readers=False)
    put.leaf_vcs(S)
    purge.leaf_vcs(S)
    readers.list_reader_vc(S)
    trashdirs.scanner_vc(S)
    trashdirs.scanner_home_vc(S)
    put.trash_file_in_vc(S, conservation=True)
    restore.restore_one_vc(S)
    purge.rm_vc(S)
    deps = [dates.ParseDeletionDate(), dates.ClockNow(), dates.OlderThan()]
    S.install(deps)
    purge.empty_vc(S, dry_run=False)
    readers.list_action_vc(S)
    options.list_options_vc(S)
    options.put_options_vc(S)
    options.empty_options_vc(S)

    def put_adds(V):
        # posts of for_file + the C03 round trip => the new line shows the
        # absolute original path
        Vv, L, A = z3.String('lemma.V'), z3.String('lemma.L'), z3.String('lemma.A')
        V.ctx.assume(z3.And(spec.join2(Vv, L) == A,
                            spec.unquote_f(spec.quote_f(L, SV('/'))) == L))
        return spec.join2(Vv, spec.unquote_f(spec.quote_f(L, SV('/')))) == A
    S.lemma('lemma/C09/put-adds-exactly-the-original-path', put_adds)


def history_battery(repo, seed=0, histories=6, steps=12):
    """bounded differential: random command histories against a reference bag
    (home trash and one volume-like --trash-dir are both exercised through
    XDG_DATA_HOME; trash-list is compared after every step)"""
    import random
    from pyvc.scenario import Sandbox
    rnd = random.Random(seed)
    problems = []
    for h in range(histories):
        with Sandbox(repo) as sb:
            env = {'TRASH_VOLUMES': sb.path('vol')}
            work = sb.path('work')
            dirs = [work, os.path.join(work, 'a'), os.path.join(work, 'a', 'b')]
            for d in dirs:
                os.makedirs(d, exist_ok=True)
            names = ['x', 'y', 'x y', 'z.o']
            bag = []     # list of (path, date) read back from the info files
            td = os.path.join(sb.home, '.local', 'share', 'Trash')

            def infos():
                out = {}
                idir = os.path.join(td, 'info')
                if os.path.isdir(idir):
                    for f in os.listdir(idir):
                        txt = open(os.path.join(idir, f)).read().split('\n')
                        out[f] = (txt[1][5:], txt[2][len('DeletionDate='):])
                return out

            def listing():
                r = sb.run('trash-list', [], env=env)
                return sorted(l for l in r['stdout'].split('\n') if l), r
            for st in range(steps):
                op = rnd.choice(['put', 'put', 'put', 'restore', 'rm', 'empty'])
                before = infos()
                if op == 'put':
                    d = rnd.choice(dirs)
                    n = rnd.choice(names)
                    p = os.path.join(d, n)
                    if not os.path.lexists(p):
                        open(p, 'w').write('c%d' % st)
                    r = sb.run('trash-put', [p], env=env, cwd=work)
                    after = infos()
                    new = [k for k in after if k not in before]
                    if r['exit'] == 0:
                        if len(new) != 1:
                            problems.append('h%d s%d put: %d new infos' % (h, st, len(new)))
                        else:
                            from urllib.parse import unquote
                            if unquote(after[new[0]][0]) != p:
                                problems.append('h%d s%d put: recorded %r for %r' % (
                                    h, st, after[new[0]][0], p))
                            bag.append((p, after[new[0]][1].replace('T', ' ')))
                elif op == 'restore' and bag:
                    d = rnd.choice(dirs)
                    lst = sb.run('trash-restore', [d], env=env, stdin='\n', cwd=d)
                    lines = [l for l in lst['stdout'].split('\n')
                             if l.strip()[:1].isdigit()]
                    if lines:
                        pick = rnd.choice(lines)
                        idx, date, tm, path = pick.strip().split(' ', 3)
                        r = sb.run('trash-restore', [d], env=env, stdin=idx + '\n', cwd=d)
                        if r['exit'] == 0:
                            key = (path, '%s %s' % (date, tm))
                            if key in bag:
                                bag.remove(key)
                            else:
                                problems.append('h%d s%d restore: offered %r not in the bag'
                                                % (h, st, key))
                elif op == 'rm':
                    pat = rnd.choice(['x', 'z*', '/nomatch', '*y'])
                    sb.run('trash-rm', [pat], env=env)
                    import fnmatch
                    bag = [e for e in bag if not fnmatch.fnmatchcase(
                        e[0] if pat[0] == '/' else os.path.basename(e[0]), pat)]
                elif op == 'empty':
                    if rnd.random() < 0.5:
                        sb.run('trash-empty', ['-f', '1'], env=env)   # all are fresh
                    else:
                        sb.run('trash-empty', ['-f'], env=env)
                        bag = []
                got, r = listing()
                want = sorted('%s %s' % (d_, p_) for p_, d_ in bag)
                if got != want:
                    problems.append('h%d s%d after %s: list %r, model %r' % (
                        h, st, op, got[:3], want[:3]))
                    break
    # the trash is a BAG: the same path trashed twice within one second is two
    # entries and two (identical) lines; restoring one leaves the other
    with Sandbox(repo) as sb:
        env = {'TRASH_VOLUMES': sb.path('vol')}
        td = os.path.join(sb.home, '.local', 'share', 'Trash')
        work = sb.path('work')
        os.makedirs(work)
        P = os.path.join(work, 'build.log')
        sb.add_entry(td, 'build.log', path=P, date='2021-03-04T05:06:07')
        sb.add_entry(td, 'build.log_1', path=P, date='2021-03-04T05:06:07')
        sb.add_entry(td, 'other', path=os.path.join(work, 'other'),
                     date='2021-03-04T05:06:07')
        r = sb.run('trash-list', [], env=env)
        lines = sorted(l for l in r['stdout'].split('\n') if l)
        want = sorted(['2021-03-04 05:06:07 ' + P] * 2 +
                      ['2021-03-04 05:06:07 ' + os.path.join(work, 'other')])
        if lines != want:
            problems.append('two entries with the same path and date: list prints %r'
                            % (lines,))
        sb.run('trash-restore', [work], env=env, stdin='0\n', cwd=work)
        r = sb.run('trash-list', [], env=env)
        left = [l for l in r['stdout'].split('\n') if l.endswith('build.log')]
        if len(left) != 1:
            problems.append('after restoring one of two equal entries the list '
                            'shows %d of them' % len(left))
    return {'confirmed': bool(problems), 'problems': problems[:10],
            'histories': histories, 'steps': steps}


def _battery(S, r, o):
    return history_battery(S.interp.repo)


REPLAYERS = {'': _battery}
KF_CLASSES = {'rename-failed-with-EXDEV': lambda terms: terms['rename_errno'] == 18}


def finalize_args(S, tier, seed):
    a = c03.finalize_args(S, tier, seed)
    a['extra_assumptions'] = a['extra_assumptions'] + [
        'the trash directory put chose is one the scanner enumerates (same uid, '
        'volume listed); the induction over the command history is stated, '
        'not mechanised; restore offers what list shows except for the C20 '
        'known finding (home trash on its own volume, relative Path)']
    return a
