"""Contracts and VCs of the purging commands (trash-empty, trash-rm):
C10, C11, C12, C14, C15 and the purge side of C08/C19/C20."""
import z3

from pyvc.values import tid

from pyvc import spec, fsmodel
from pyvc.fsmodel import (ABSENT, DIR, FILE, SYMLINK, Event, fs_of, filetext_f)
from pyvc.vc import Contract, LoopAnnot
from pyvc.values import (Sym, mk, z3bool, z3int, z3str, PyExc, Obj, TupleObj,
                         StrSubObj, SymSeq, PathEnd, is_sym)
from pyvc.libmodels import DateV, DAY_US
from . import dates
from .common import (SV, arg_str, arg_int, arg_bool, T, fwp, unfold_fwp, line,
                     nlines, wire)

TI = '.trashinfo'
ENTRIES_LOOP = ('trashcli.fs', 'RealEntriesIfDirExists.entries_if_dir_exists', 0)
ONLY_FOUND_LOOP = ('trashcli.trash_dirs_scanner', 'only_found', 0)
PARSE_PATH_LOOP = ('trashcli.parse_trashinfo.parse_path', 'parse_path', 0)


def sane_stem(stem):
    return z3.And(stem != SV(''), stem != SV('.'), stem != SV('..'))


def stem_of(ctx, info_path):
    """(is_trashinfo_name, stem) of basename(info_path)"""
    b = spec.basename(ctx, info_path)
    key = ('stem', tid(b))
    if key not in ctx.notes:
        st = ctx.fresh_str('stem')
        ctx.assume(z3.Implies(z3.SuffixOf(SV(TI), b), b == z3.Concat(st, SV(TI))))
        ctx.assume(z3.Not(z3.Contains(st, SV('/'))))
        spec.mark_noslash(ctx, st)
        ctx.notes[key] = st
    return z3.SuffixOf(SV(TI), b), ctx.notes[key]


def payload_spec(ctx, info_path):
    """spec of path_of_backup_copy for a '<stem>.trashinfo' info path"""
    _is_ti, stem = stem_of(ctx, info_path)
    td = spec.dirname(ctx, spec.dirname(ctx, info_path))
    return spec.join(td, SV('files'), stem, ctx=ctx), stem, td


# ---------------------------------------------------------------------------
class PathOfBackupCopy(Contract):
    module = 'trashcli.lib.path_of_backup_copy'
    qualname = 'path_of_backup_copy'

    def setup(self, V):
        return {'trashinfo_path': arg_str('trashinfo_path')}

    def pre(self, V, a):
        p = T(a['trashinfo_path'])
        is_ti, stem = stem_of(V.ctx, p)
        return [is_ti, sane_stem(stem)]

    def post(self, V, a, out):
        p = T(a['trashinfo_path'])
        want, stem, td = payload_spec(V.ctx, p)
        r = T(out[1])
        files = spec.join(td, SV('files'), ctx=V.ctx)
        return [('payload-is-files-slash-stem', r == want),
                ('stem-is-a-name', z3.Not(z3.Contains(stem, SV('/'))))]

    def apply(self, V, a):
        p = T(a['trashinfo_path'])
        want, stem, td = payload_spec(V.ctx, p)
        return mk(want)


# ---------------------------------------------------------------------------
class RemoveFile2(Contract):
    """RealRemoveFile2.remove_file2(path): unlink, else remove the tree; only
    `path` is touched, links are never followed; normal return means the name
    is gone."""
    module = 'trashcli.fs'
    qualname = 'RealRemoveFile2.remove_file2'
    raises = ('OSError',)
    fault_free = False

    def setup(self, V):
        fs = fs_of(V.I)
        fs.fault_free = self.fault_free
        self_obj = V.I.call(V.I.lookup(self.module, 'FsMethods'), [], {})
        p = arg_str('path')
        V.ctx.ghost['pre_lkind'] = fs.lkind(T(p))
        return {'self': self_obj, 'path': p}

    def post(self, V, a, out):
        fs = fs_of(V.I)
        p = T(a['path'])
        res = []
        only = z3.BoolVal(True)
        for ev in fs.events:
            if ev.op not in ('remove', 'rmtree'):
                only = z3.BoolVal(False)
            else:
                only = z3.And(only, ev.args[0] == p)
        res.append(('touches-only-the-named-entry', only))
        # a symlink is unlinked, never traversed: no successful rmtree event
        # on a path whose lkind is Symlink
        for ev in fs.events:
            if ev.op == 'rmtree' and ev.ok:
                res.append(('rmtree-only-on-real-directories',
                            ev.extra['pre_lkind'] == DIR))
        if out[0] == 'return':
            res.append(('gone-on-return', fs.lkind(p) == ABSENT))
        if self.fault_free:
            res.append(('total-without-faults',
                        z3.Implies(V.ctx.ghost['pre_lkind'] != ABSENT,
                                   z3.BoolVal(out[0] == 'return'))))
        return res

    def apply(self, V, a):
        fs = fs_of(V.I)
        p = T(a['path'])
        V.ctx.ghost.setdefault('purge_calls', []).append(('remove_file2', p))
        pre_lk = fs.lkind(p)
        d = V.ctx.choose(1 if fs.fault_free else 2, 'remove_file2')
        pre, post = fs.step([p])
        ev = fs.record(Event('remove-tree', [p], d == 0, pre=pre, post=post,
                             extra={'pre_lkind': pre_lk}))
        if d == 0:
            V.ctx.assume(z3.Implies(pre_lk == ABSENT, z3.BoolVal(False))
                         if fs.fault_free else z3.BoolVal(True))
            V.ctx.assume(fs.lkind(p) == ABSENT)
            return None
        raise PyExc(fsmodel.os_error(V.I, 'remove_file2', a['path']))


class RemoveFile2NoFaults(RemoveFile2):
    fault_free = True


class RemoveFileIfExists(Contract):
    """RealRemoveFileIfExists.remove_file_if_exists(path): nothing when the
    name is absent (lexists), else remove_file2."""
    module = 'trashcli.fs'
    qualname = 'RealRemoveFileIfExists.remove_file_if_exists'
    raises = ('OSError',)

    def setup(self, V):
        self_obj = V.I.call(V.I.lookup(self.module, 'FsMethods'), [], {})
        return {'self': self_obj, 'path': arg_str('path')}

    def post(self, V, a, out):
        fs = fs_of(V.I)
        p = T(a['path'])
        res = []
        calls = V.ctx.ghost.get('purge_calls', [])
        pre_lk = fs.lkind(p, fs.sigma0)
        res.append(('acts-iff-lexists',
                    z3.BoolVal(len(calls) > 0) == (pre_lk != ABSENT)))
        for kind, q in calls:
            res.append(('acts-on-the-named-entry', q == p))
        res.append(('at-most-one-removal', z3.BoolVal(len(calls) <= 1)))
        return res

    def apply(self, V, a):
        fs = fs_of(V.I)
        p = T(a['path'])
        V.ctx.ghost.setdefault('purge_calls', []).append(
            ('remove_file_if_exists', p))
        pre_lk = fs.lkind(p)
        if not V.ctx.branch(pre_lk != ABSENT, 'rm-if-exists-present'):
            return None
        d = V.ctx.choose(1 if fs.fault_free else 2, 'remove_file_if_exists')
        pre, post = fs.step([p])
        fs.record(Event('remove-tree', [p], d == 0, pre=pre, post=post,
                        extra={'pre_lkind': pre_lk}))
        if d == 0:
            V.ctx.assume(fs.lkind(p) == ABSENT)
            return None
        raise PyExc(fsmodel.os_error(V.I, 'remove_file_if_exists', a['path']))


# ---------------------------------------------------------------------------
class ParsePath(Contract):
    """parse_path(contents): un-escaped value of the first 'Path=' line;
    ParseError iff there is none."""
    module = 'trashcli.parse_trashinfo.parse_path'
    qualname = 'parse_path'
    raises = ('ValueError',)

    def setup(self, V):
        return {'contents': arg_str('contents')}

    @staticmethod
    def spec(c):
        j = fwp(c, 0, 'Path=')
        ln = line(c, j)
        val = z3.SubString(ln, 5, z3.Length(ln) - 5)
        return j, spec.unquote_f(val)

    def post(self, V, a, out):
        c = T(a['contents'])
        j, val = self.spec(c)
        unfold_fwp(V.ctx, c, 0, 'Path=')
        if out[0] == 'raise':
            ok = out[1].cls.name == 'ParseError'
            return [('ParseError-iff-no-Path-line',
                     z3.And(z3.BoolVal(ok), j < 0))]
        calls = V.ctx.notes.get('unquote_calls', [])
        decoder = [n for (_t, n) in calls]
        return [('first-Path-line-unquoted',
                 z3.And(j >= 0, T(out[1]) == val)),
                ('decoder-is-unquote', z3.BoolVal(decoder == ['unquote']))]

    def apply(self, V, a):
        c = T(a['contents'])
        j, val = self.spec(c)
        if V.ctx.branch(j >= 0, 'has-Path-line'):
            V.ctx.assume(j < nlines(c))
            return mk(val)
        cls = V.I.lookup('trashcli.parse_trashinfo.parser_error', 'ParseError')
        raise PyExc(V.I.call(cls, ['Unable to parse Path'], {}))


def parse_path_loop_annot():
    def inv(I, env, seq, i):
        c = seq.base[1]
        unfold_fwp(I.ctx, c, i, 'Path=')
        return [('no-earlier-Path-line',
                 fwp(c, i, 'Path=') == fwp(c, 0, 'Path='))]
    return LoopAnnot(invariant=inv)


# ---------------------------------------------------------------------------
def ok_spec(V, sigma, info_path, environ, days, real_us, readable, text):
    """C10: purge iff DAYS absent, or the date on the first DeletionDate line
    parses and is strictly earlier than now - DAYS days"""
    if days is None:
        return z3.BoolVal(True)
    has, us, _j, _c = dates.spec_deletion_date(V.ctx, text)
    now = dates.ClockNow().spec(V, environ, real_us)
    return z3.And(readable, has, us < now - z3int(days) * DAY_US)


def ok_terms(V, environ, days, real_us, text):
    if days is None:
        return {'days': None, 'now_us': real_us, 'date_us': z3.IntVal(0)}
    has, us, _j, _c = dates.spec_deletion_date(V.ctx, text)
    now = dates.ClockNow().spec(V, environ, real_us)
    return {'days': z3int(days), 'now_us': now, 'date_us': us}


class OkToDelete(Contract):
    module = 'trashcli.empty.delete_according_date'
    qualname = 'DeleteAccordingDate.ok_to_delete'
    raises = ('OverflowError',)

    def setup(self, V):
        c = wire(V, 'trashcli.empty.main', 'trashcli.empty.empty_cmd',
                 'EmptyCmd.run_cmd')
        dm = c['self'].attrs['empty_action'].attrs['emptier'].attrs['delete_mode']
        fs = fs_of(V.I)
        days = None
        if V.ctx.choose(2, 'days-given') == 1:
            days = arg_int('days')
            V.ctx.assume(T(days) >= 0)
        return {'self': dm, 'trashinfo_path': arg_str('trashinfo_path'),
                'environ': V.I.lib.environ(), 'parsed_days': days}

    def post(self, V, a, out):
        fs = fs_of(V.I)
        p = T(a['trashinfo_path'])
        real_us = V.ctx.ghost.get('real_now_us', z3.Int('ghost.real_now'))
        reads = [e for e in V.ctx.events if e[0] == 'read']
        if out[0] == 'raise':
            # only for an unrepresentable limit date
            return []
        r = out[1]
        if a['parsed_days'] is None:
            return [('no-days-means-purge', z3.BoolVal(r is True)),
                    ('no-days-means-no-read', z3.BoolVal(len(reads) == 0))]
        if len(reads) != 1:
            return [('reads-the-info-once', z3.BoolVal(False))]
        _tag, rp, sigma, okread, text = reads[0]
        want = ok_spec(V, sigma, p, a['environ'], a['parsed_days'], real_us,
                       z3.BoolVal(okread), text)
        V.ctx.kf_terms = ok_terms(V, a['environ'], a['parsed_days'], real_us,
                                  text)
        return [('purge-iff-strictly-older', T(r) == want),
                ('reads-the-named-info', rp == p)]

    def apply(self, V, a):
        fs = fs_of(V.I)
        p = T(a['trashinfo_path'])
        days = a['parsed_days']
        if days is None:
            return True
        real_us = V.ctx.ghost.setdefault('real_now_us', z3.Int('ghost.real_now'))
        readable = V.ctx.fresh_bool('readable')
        text = filetext_f(fs.sigma, p)
        V.ctx.ghost.setdefault('ok_reads', []).append((p, fs.sigma, readable, text))
        lim_ok = dates.ClockNow().spec(V, a['environ'], real_us) - \
            z3int(days) * DAY_US >= 0
        if not V.ctx.branch(z3.And(lim_ok, z3int(days) <= 999999999),
                            'limit-representable'):
            raise PyExc(V.I.make_exc('OverflowError', 'date value out of range'))
        return mk(ok_spec(V, fs.sigma, p, a['environ'], days, real_us,
                          readable, text))


# ---------------------------------------------------------------------------
# loop annotations shared by the purge VCs
# ---------------------------------------------------------------------------
def entries_loop_annot(at_end=None):
    """for entry in os.listdir(path): arbitrary entry; ghost cur_entry"""
    def on_element(I, env, seq, i, x):
        fsmodel.listdir_element_axioms(I.ctx, x.t if is_sym(x) else z3str(x))
        sg, p = seq.base[1], seq.base[2]
        I.ctx.ghost['cur_entry'] = {'dir': p, 'name': T(x), 'sigma': sg,
                                    'index': i}
        I.ctx.ghost['purge_calls'] = []
        I.ctx.ghost['out_writes_mark'] = len(I.ctx.events)
        if 'yielded' in I.ctx.ghost:
            I.ctx.ghost['yield_mark'] = len(I.ctx.ghost['yielded'])

    def at_iteration_end(I, env, seq, i, x):
        if at_end is not None:
            at_end(I, env)

    return LoopAnnot(on_element=on_element, at_iteration_end=at_iteration_end)


def shaped_path(I, t, label):
    """case split on the spelling of a directory path string t (a z3 term):
    '/' | no trailing slash | with trailing slashes | ''.  Returns the value
    to use (structurally decomposed so that join/dirname stay syntactic)."""
    ctx = I.ctx
    sh = ctx.choose(4, label)
    if sh == 0:
        ctx.assume(t == SV('/'))
        return '/', sh
    if sh == 1:
        ctx.assume(z3.And(t != SV(''), z3.Not(z3.SuffixOf(SV('/'), t))))
        spec.mark_noendslash(ctx, t)
        return Sym(t, 'str'), sh
    if sh == 2:
        base = ctx.fresh_str(label + 'base')
        sl = ctx.fresh_str(label + 'sl')
        ctx.assume(z3.And(base != SV(''), z3.Not(z3.SuffixOf(SV('/'), base))))
        ctx.assume(z3.And(sl != SV(''), z3.InRe(sl, z3.Star(z3.Re('/')))))
        spec.mark_noendslash(ctx, base)
        spec.mark_slashes1(ctx, sl)
        ctx.assume(t == z3.Concat(base, sl))
        return Sym(z3.Concat(base, sl), 'str'), sh
    ctx.assume(t == SV(''))
    return '', sh


def volumes_loop_annot():
    def on_element(I, env, seq, i, x):
        v, sh = shaped_path(I, T(x), 'vol-shape')
        I.ctx.ghost['cur_listed_volume'] = T(v)
        return v
    return LoopAnnot(on_element=on_element,
                     keep={'top_trash_dir_path', 'result', 'alt_top_trash_dir'})


def trash_dir_element(I, env, seq, i):
    """arbitrary scanner event"""
    mod = 'trashcli.trash_dirs_scanner'
    d = I.ctx.choose(3, 'scan-event')
    p = Sym(I.ctx.fresh_str('td'), 'str')
    if d == 0:
        v, sh = shaped_path(I, p.t, 'td-shape')
        I.ctx.ghost['td_shape'] = sh
        p = v
        vol = Sym(I.ctx.fresh_str('vol'), 'str')
        tdcls = I.lookup(mod, 'TrashDir')
        ev = I.lookup(mod, 'trash_dir_found')
        I.ctx.ghost['cur_td'] = T(p)
        I.ctx.ghost['cur_vol'] = vol.t
        return (ev, I.call(tdcls, [p, vol], {}))
    name = ('trash_dir_skipped_because_parent_not_sticky' if d == 1 else
            'trash_dir_skipped_because_parent_is_symlink')
    I.ctx.ghost['cur_td'] = None
    return (I.lookup(mod, name), (p,))


def only_found_annot():
    return LoopAnnot(abstract=True, element=trash_dir_element)


# ---------------------------------------------------------------------------
# VC: Emptier.do_empty (+ files_to_delete, TrashDirReader) on an arbitrary
# sequence of scanner events and arbitrary directory contents
# ---------------------------------------------------------------------------
def _stdout_writes(ctx, since):
    out = []
    for e in ctx.events[since:]:
        if e[0] == 'write' and e[1] == 'stdout':
            out.append(z3str(e[2]))
    return out


def empty_vc(S, dry_run, prefix='empty'):
    contracts = [OkToDelete(), RemoveFileIfExists(), PathOfBackupCopy()]
    I = S.interp

    def at_end(I_, env):
        ctx = I_.ctx
        cur = ctx.ghost['cur_entry']
        td = ctx.ghost.get('cur_td')
        calls = ctx.ghost.get('purge_calls', [])
        removed = [q for (k, q) in calls]
        name = cur['name']
        d = cur['dir']
        writes = _stdout_writes(ctx, ctx.ghost['out_writes_mark'])
        info_dir = spec.join(td, SV('info'), ctx=ctx)
        files_dir = spec.join(td, SV('files'), ctx=ctx)
        full = spec.join(d, name, ctx=ctx)
        if ctx.ghost.get('listing') == 'info':
            ctx.oblige(prefix + '/listing-is-the-info-dir', d == info_dir)
            # an entry is an info file '<stem>.trashinfo' whose stem is a
            # usable name (the payload of '', '.', '..' would be files/ itself)
            _isti, stem0 = stem_of(ctx, spec.join(d, name, ctx=ctx))
            is_ti = z3.And(z3.SuffixOf(SV(TI), name), sane_stem(stem0))
            reads = ctx.ghost.get('ok_reads', [])
            days = ctx.ghost['days']
            real_us = ctx.ghost.get('real_now_us', z3.Int('ghost.real_now'))
            if days is None:
                want = is_ti
            elif reads:
                rp, sg, readable, text = reads[-1]
                want = z3.And(is_ti, ok_spec(
                    View_(I_), sg, full, ctx.ghost['environ'], days, real_us,
                    readable, text))
                ctx.oblige(prefix + '/date-read-from-this-info', rp == full)
            else:
                want = z3.BoolVal(False)
            payload, stem, tdx = payload_spec(ctx, full)
            acted = writes if dry_run else removed
            terms = None
            if days is not None and reads:
                terms = ok_terms(View_(I_), ctx.ghost['environ'], days,
                                 real_us, reads[-1][3])
            elif days is None:
                terms = {'days': None, 'now_us': z3.IntVal(63000000000000000),
                         'date_us': z3.IntVal(62000000000000000)}
            ctx.oblige(prefix + '/purged-iff-old-enough',
                       z3.BoolVal(len(acted) > 0) == want,
                       info={'terms': terms})
            if acted:
                if len(acted) == 2:
                    info_t = _unfmt(dry_run, acted[1])
                    pay_t = _unfmt(dry_run, acted[0])
                    payload2, _s2, _t2 = payload_spec(ctx, info_t)
                    ctx.oblige(prefix + '/entry-removed-whole-payload-then-info',
                               z3.And(info_t == full, pay_t == payload2))
                else:
                    ctx.oblige(prefix + '/entry-removed-whole-payload-then-info',
                               z3.BoolVal(False))
                if True:
                  ctx.oblige(prefix + '/payload-under-files-of-this-trash-dir',
                           z3.And(payload == spec.join(
                               spec.join(tdx, SV('files'), ctx=ctx), stem, ctx=ctx),
                               sane_stem(stem),
                               z3.Not(z3.Contains(stem, SV('/'))),
                               tdx == trash_dir_canon(ctx, td)))
        else:
            ctx.oblige(prefix + '/listing-is-the-files-dir', d == files_dir)
            probe = ctx.ghost.get('orphan_probe')
            acted = writes if dry_run else removed
            if probe is not None:
                has_info, probe_path = probe
                ctx.oblige(prefix + '/orphan-probe-is-the-info-of-this-name',
                           probe_path == spec.join(info_dir, z3.Concat(name, SV(TI)), ctx=ctx))
                ctx.oblige(prefix + '/orphan-purged-iff-no-info',
                           z3.BoolVal(len(acted) > 0) == z3.Not(has_info))
            else:
                ctx.oblige(prefix + '/orphan-probe-made', z3.BoolVal(False))
            if acted:
                ctx.oblige(prefix + '/orphan-removed-is-this-entry',
                           z3.And(z3.BoolVal(len(acted) == 1),
                                  acted[0] == _fmt(dry_run, full)))
        if dry_run:
            ctx.oblige(prefix + '/dry-run-removes-nothing',
                       z3.BoolVal(len(removed) == 0))

    def on_listing(I_, vals, which):
        I_.ctx.ghost['listing'] = which

    loops = {ENTRIES_LOOP: entries_loop_annot(at_end),
             ONLY_FOUND_LOOP: only_found_annot()}

    def body(V):
        ctx = V.ctx
        c = wire(V, 'trashcli.empty.main', 'trashcli.empty.empty_cmd',
                 'EmptyCmd.run_cmd')
        emptier = c['self'].attrs['empty_action'].attrs['emptier']
        days = None
        if ctx.choose(2, 'days-given') == 1:
            days = arg_int('days')
            ctx.assume(T(days) >= 0)
        verbose = 0 if ctx.choose(2, 'verbose') == 0 else 1
        env_ = V.I.lib.environ()
        ctx.ghost['days'] = days
        ctx.ghost['environ'] = env_
        fs = fs_of(V.I)
        # hooks: which directory is being listed / orphan probe
        ctx.ghost['event_hooks'] = [lambda ev: purge_frame_hook(V, ev, prefix)]
        I.call_hooks = [listing_hook]
        fv = S.resolve('trashcli.empty.emptier', 'Emptier.do_empty')
        S.note_function('trashcli.empty.emptier', 'Emptier.files_to_delete')
        S.note_function('trashcli.lib.trash_dir_reader', 'TrashDirReader.list_trashinfo')
        S.note_function('trashcli.lib.trash_dir_reader', 'TrashDirReader.list_orphans')
        S.note_function('trashcli.trash_dirs_scanner', 'only_found')
        S.note_function('trashcli.fs', 'RealEntriesIfDirExists.entries_if_dir_exists')
        S.note_function('trashcli.empty.console', 'Console.print_dry_run')
        events = Obj(V.I.lib.object_cls)   # abstract iterable of scan events
        try:
            V.I.call_function(fv, [], {
                'self': emptier, 'trash_dirs': events, 'environ': env_,
                'parsed_days': days, 'dry_run': dry_run, 'verbose': verbose})
            ctx.cover(prefix + '/cover-end')
        except PyExc as pe:
            # OverflowError from an unrepresentable limit date stops the
            # command before anything else is removed; anything else is a
            # per-entry failure that must not escape (C19)
            ok = pe.value.cls.name == 'OverflowError' or \
                pe.value.attrs.get('op') == 'listdir'
            ctx.oblige(prefix + '/nothrow', z3.BoolVal(ok), kind='nothrow',
                       info={'exception': pe.value.cls.name})

    S.install(contracts, loops)
    S.run_paths(prefix, body, active=[c.key for c in contracts])
    I.call_hooks = []


def _unfmt(dry_run, t):
    """the path inside a 'would remove <path>\\n' line (dry run)"""
    if not dry_run:
        return t
    ps = spec.pieces(t)
    if len(ps) >= 3 and spec.lit(ps[0]) is not None and \
            spec.lit(ps[0]).startswith('would remove ') and \
            spec.lit(ps[-1]) == '\n':
        first = spec.lit(ps[0])[len('would remove '):]
        return spec.cat(([z3.StringVal(first)] if first else []) + ps[1:-1])
    return t


def _fmt(dry_run, path_t):
    if dry_run:
        return z3.Concat(SV('would remove '), path_t, SV('\n'))
    return path_t


def trash_dir_canon(ctx, td):
    """dirname(dirname(td/info/x)) for a name x: td with trailing slashes
    stripped (td itself when it is '' or all slashes)."""
    r = spec.rstrip_slashes(ctx, td)
    return z3.If(z3.InRe(td, z3.Star(z3.Re('/'))), td, r)


class View_(object):
    def __init__(self, I):
        self.I = I
        self.ctx = I.ctx


def listing_hook(I, fv, vals):
    """ghost: which of info/ and files/ the reader is listing; the orphan
    probe.  Installed as a call hook (observes, never changes a call)."""
    q = fv.qualname
    if q == 'TrashDirReader.list_trashinfo':
        I.ctx.ghost['listing'] = 'info'
    elif q == 'TrashDirReader.list_orphans':
        I.ctx.ghost['listing'] = 'files'
    elif q == 'RealExists.exists' and I.ctx.ghost.get('listing') == 'files':
        fs = fs_of(I)
        p = z3str(vals['path'])
        I.ctx.ghost['orphan_probe'] = (fs.kind(p) != ABSENT, p)


def purge_frame_hook(V, ev, prefix):
    """C11: every removal names an entry directly under files/ or info/ of
    the trash directory being operated on."""
    ctx = V.ctx
    if ev.op in ('remove-tree',):
        td = ctx.ghost.get('cur_td')
        cur = ctx.ghost.get('cur_entry')
        if td is None or cur is None:
            ctx.oblige(prefix + '/frame/removal-outside-an-entry',
                       z3.BoolVal(False), kind='frame')
            return
        p = ev.args[0]
        canon = trash_dir_canon(ctx, td)
        files_a = spec.join(td, SV('files'), ctx=ctx)
        files_b = spec.join(canon, SV('files'), ctx=ctx)
        info = spec.join(td, SV('info'), ctx=ctx)
        d = spec.dirname(ctx, p)
        b = spec.basename(ctx, p)
        ctx.oblige(prefix + '/frame/removal-under-files-or-info',
                   z3.And(z3.Or(d == files_a, d == files_b, d == info),
                          sane_stem(b)), kind='frame')
    elif ev.op in ('remove', 'rmtree', 'rename', 'copy', 'delete-src',
                   'makedirs', 'mkdir', 'open', 'write', 'open-write',
                   'file-write'):
        ctx.oblige(prefix + '/frame/unexpected-mutation-%s' % ev.op,
                   z3.BoolVal(False), kind='frame')


# ---------------------------------------------------------------------------
# trash-rm
# ---------------------------------------------------------------------------
RM_RUN_LOOP = ('trashcli.rm.rm_cmd', 'RmCmd.run', 0)
SCAN_VOLUMES_LOOP = ('trashcli.trash_dirs_scanner',
                     'TrashDirsScanner.scan_trash_dirs', 2)
volume_at_f = z3.Function('listed_volume_at', spec.State, z3.IntSort(),
                          z3.StringSort())
volume_len_f = z3.Function('listed_volume_len', spec.State, z3.IntSort())


class ListVolumes(Contract):
    """VolumesListingImpl.list_volumes(environ): some finite sequence of
    volume strings (TRASH_VOLUMES or the mount table: psutil is not
    modelled).  ASSUMED, not verified."""
    module = 'trashcli.fstab.volume_listing'
    qualname = 'VolumesListingImpl.list_volumes'
    assumed = True

    def apply(self, V, a):
        fs = fs_of(V.I)
        sg = fs.sigma
        n = volume_len_f(sg)
        V.ctx.assume(n >= 0)
        V.ctx.used_axioms.add('ASSUMED contract: VolumesListingImpl.list_volumes '
                              'returns an arbitrary finite sequence of strings '
                              '(psutil / TRASH_VOLUMES parsing not verified)')
        return SymSeq(n, lambda i, sg=sg: volume_at_f(
            sg, i if z3.is_expr(i) else z3.IntVal(i)), ('volumes', sg))


class FilterMatches(Contract):
    """Filter.matches(original_location): case-sensitive shell-style match of
    the pattern against the base name, or against the whole path when the
    pattern starts with '/'."""
    module = 'trashcli.rm.filter'
    qualname = 'Filter.matches'
    raises = ('IndexError',)

    def setup(self, V):
        pat = arg_str('pattern')
        f = V.I.call(V.I.lookup(self.module, 'Filter'), [pat], {})
        return {'self': f, 'original_location': arg_str('original_location')}

    @staticmethod
    def spec(ctx, pattern, loc):
        subject = z3.If(z3.PrefixOf(SV('/'), pattern), loc,
                        spec.basename(ctx, loc))
        return spec.glob_f(subject, pattern)

    def post(self, V, a, out):
        pat = T(a['self'].attrs['pattern'])
        loc = T(a['original_location'])
        if out[0] == 'raise':
            return [('IndexError-only-for-empty-pattern', pat == SV(''))]
        return [('glob-on-basename-or-full-path',
                 z3.And(pat != SV(''),
                        T(out[1]) == self.spec(V.ctx, pat, loc)))]

    def apply(self, V, a):
        pat = T(a['self'].attrs['pattern'])
        loc = T(a['original_location'])
        if not V.ctx.branch(pat != SV(''), 'pattern-nonempty'):
            raise PyExc(V.I.make_exc('IndexError', 'string index out of range'))
        return mk(self.spec(V.ctx, pat, loc))


def rm_vc(S, prefix='rm'):
    contracts = [RemoveFileIfExists(), RemoveFile2(), PathOfBackupCopy(),
                 ParsePath(), FilterMatches(), ListVolumes()]
    I = S.interp

    def hook(I_, fv, vals):
        if fv.qualname == 'ListTrashinfos.list_from_volume_trashdir':
            I_.ctx.ghost['cur_td'] = z3str(vals['trashdir_path'])
            I_.ctx.ghost['cur_vol'] = z3str(vals['volume'])
            I_.ctx.ghost['listing'] = 'info'

    def at_end(I_, env):
        ctx = I_.ctx
        cur = ctx.ghost['cur_entry']
        td = ctx.ghost.get('cur_td')
        calls = ctx.ghost.get('purge_calls', [])
        name, d = cur['name'], cur['dir']
        full = spec.join(d, name, ctx=ctx)
        ctx.oblige(prefix + '/listing-is-the-info-dir',
                   d == spec.join(td, SV('info'), ctx=ctx))
        _isti, stem0 = stem_of(ctx, full)
        is_entry = z3.And(z3.SuffixOf(SV(TI), name), sane_stem(stem0))
        reads = [e for e in ctx.events[ctx.ghost['out_writes_mark']:]
                 if e[0] == 'read']
        pat = ctx.ghost['pattern']
        vol = ctx.ghost['cur_vol']
        if len(reads) == 1 and reads[0][3]:
            text = reads[0][4]
            j, val = ParsePath.spec(text)
            loc = spec.join(vol, val, ctx=ctx)
            want = z3.And(is_entry, j >= 0,
                          FilterMatches.spec(ctx, pat, loc))
            ctx.oblige(prefix + '/reads-this-info', reads[0][1] == full)
        elif len(reads) <= 1:
            want = z3.BoolVal(False)      # unreadable / not an entry: kept
        else:
            ctx.oblige(prefix + '/reads-each-info-once', z3.BoolVal(False))
            return
        ctx.oblige(prefix + '/removed-iff-original-name-matches',
                   z3.BoolVal(len(calls) > 0) == want)
        if calls:
            if len(calls) == 2:
                payload2, _s, _t = payload_spec(ctx, calls[1][1])
                ctx.oblige(prefix + '/entry-removed-whole-payload-then-info',
                           z3.And(z3.BoolVal(calls[0][0] == 'remove_file_if_exists'),
                                  calls[1][1] == full,
                                  calls[0][1] == payload2))
            else:
                ctx.oblige(prefix + '/entry-removed-whole-payload-then-info',
                           z3.BoolVal(False))

    # the scanner is abstracted here: RmCmd.run is verified for an arbitrary
    # sequence of scanner events (the scanner has its own VC, see scan.py)
    loops = {ENTRIES_LOOP: entries_loop_annot(at_end),
             RM_RUN_LOOP: only_found_annot(),
             PARSE_PATH_LOOP: parse_path_loop_annot()}

    def body(V):
        ctx = V.ctx
        c = wire(V, 'trashcli.rm.main', 'trashcli.rm.rm_cmd', 'RmCmd.run')
        cmd = c['self']
        pat = arg_str('pattern')
        ctx.ghost['pattern'] = pat.t
        ctx.ghost['event_hooks'] = [lambda ev: purge_frame_hook(V, ev, prefix)]
        I.call_hooks = [hook]
        fv = S.resolve('trashcli.rm.rm_cmd', 'RmCmd.run')
        for q in (('trashcli.rm.cleanable_trashcan',
                   'CleanableTrashcan.delete_trash_info_and_backup_copy'),
                  ('trashcli.rm.list_trashinfo',
                   'ListTrashinfos.list_from_volume_trashdir'),
                  ('trashcli.trash_dirs_scanner',
                   'TrashDirsScanner.scan_trash_dirs'),
                  ('trashcli.lib.trash_dir_reader',
                   'TrashDirReader.list_trashinfo')):
            S.note_function(*q)
        try:
            V.I.call_function(fv, [], {'self': cmd, 'argv': ['trash-rm', pat],
                                       'uid': c['uid']})
            ctx.cover(prefix + '/cover-end')
        except PyExc as pe:
            ok = (pe.value.cls.name == 'IndexError' and
                  ctx.entails(pat.t == SV(''))) or \
                pe.value.attrs.get('op') == 'listdir' or \
                pe.value.attrs.get('op') in ('remove_file2',
                                             'remove_file_if_exists')
            ctx.oblige(prefix + '/nothrow', z3.BoolVal(bool(ok)), kind='nothrow',
                       info={'exception': pe.value.cls.name,
                             'op': pe.value.attrs.get('op')})

    S.install(contracts, loops)
    S.run_paths(prefix, body, active=[c.key for c in contracts])
    I.call_hooks = []


# ---------------------------------------------------------------------------
# consent (C14): parse_reply, Guard, EmptyAction.run_action
# ---------------------------------------------------------------------------
def enumerate_lower_y():
    """exhaustive: for every code point c, c.lower() == 'y' iff c in 'yY'
    (the fact about str.lower that the parse_reply proofs use)"""
    bad = []
    n = 0
    for cp in range(0x110000):
        c = chr(cp)
        n += 1
        if (c.lower() == 'y') != (c in 'yY'):
            bad.append(cp)
    if ''.lower() == 'y':
        bad.append(-1)
    return n + 1, bad


class ParseReply(Contract):
    """parse_reply(reply): consent only for replies beginning with y or Y"""
    module = 'trashcli.empty.parse_reply'
    qualname = 'parse_reply'

    def setup(self, V):
        return {'reply': arg_str('reply')}

    @staticmethod
    def spec(reply_t):
        return z3.Or(z3.PrefixOf(SV('y'), reply_t), z3.PrefixOf(SV('Y'), reply_t))

    def post(self, V, a, out):
        r = out[1]
        return [('consent-iff-reply-begins-with-y', T(r) == self.spec(T(a['reply'])))]

    def apply(self, V, a):
        return mk(self.spec(T(a['reply'])))


class ReadInput(Contract):
    """RealInput.read_input(prompt): any line, or end of input / interrupt.
    (the terminal is outside the verified code)"""
    module = 'trashcli.lib.my_input'
    qualname = 'RealInput.read_input'
    assumed = True

    def apply(self, V, a):
        d = V.ctx.choose(3, 'input-outcome')
        V.ctx.events.append(('prompt', a['prompt']))
        if d == 1:
            raise PyExc(V.I.make_exc('EOFError', 'EOF when reading a line'))
        if d == 2:
            raise PyExc(V.I.make_exc('KeyboardInterrupt', ''))
        r = V.ctx.fresh_str('reply')
        V.ctx.assume(z3.Not(z3.Contains(r, SV('\n'))))
        V.ctx.ghost.setdefault('replies', []).append(r)
        return Sym(r, 'str')


class ReadInputBody(Contract):
    """RealInput.read_input(prompt): hands back exactly the line input()
    delivered, after showing exactly that prompt; EOFError / KeyboardInterrupt
    pass through (the callers treat them as 'no reply')"""
    module = 'trashcli.lib.my_input'
    qualname = 'RealInput.read_input'
    raises = ('EOFError', 'KeyboardInterrupt')

    def setup(self, V):
        self_obj = V.I.call(V.I.lookup(self.module, 'RealInput'), [], {})
        V.ctx.ghost['input_mark'] = len(V.ctx.events)
        return {'self': self_obj, 'prompt': arg_str('prompt')}

    def post(self, V, a, out):
        evs = [e for e in V.ctx.events[V.ctx.ghost['input_mark']:]
               if e[0] == 'input']
        res = [('reads-exactly-one-line', z3.BoolVal(len(evs) == 1))]
        if len(evs) == 1:
            res.append(('shows-the-prompt-it-was-given',
                        z3str(evs[0][1]) == T(a['prompt'])))
            if out[0] == 'return':
                res.append(('reply-is-the-line-unchanged',
                            z3.BoolVal(evs[0][2] is not None) if evs[0][2] is None
                            else z3str(out[1]) == evs[0][2]))
        return res

    def apply(self, V, a):
        return ReadInput().apply(V, a)


class IsInputInteractive(Contract):
    """is_input_interactive(): interactive by default exactly when stdin is a
    terminal (C14: '-i, or a terminal on stdin')"""
    module = 'trashcli.empty.is_input_interactive'
    qualname = 'is_input_interactive'

    def setup(self, V):
        V.ctx.ghost['isatty_calls'] = []
        return {}

    def post(self, V, a, out):
        calls = V.ctx.ghost.get('isatty_calls', [])
        stdin = [r for fd, r in calls if fd == 0]
        if len(stdin) != 1:
            return [('consults-stdin', z3.BoolVal(False))]
        return [('interactive-iff-stdin-is-a-terminal',
                 T(out[1]) == T(stdin[0]))]


class DoEmptyProbe(Contract):
    module = 'trashcli.empty.emptier'
    qualname = 'Emptier.do_empty'
    assumed = False

    def apply(self, V, a):
        V.ctx.ghost.setdefault('do_empty_calls', []).append(a)
        return None


class SelectTrashDirs(Contract):
    """TrashDirsSelector.select: some scanner events (abstracted: the guard
    does not depend on them)"""
    module = 'trashcli.list.trash_dir_selector'
    qualname = 'TrashDirsSelector.select'

    def apply(self, V, a):
        n = V.ctx.choose(3, 'n-trash-dirs')
        out = []
        for k in range(n):
            out.append(trash_dir_element(V.I, None, None, None))
        return out


def consent_vc(S, prefix='consent'):
    contracts = [ReadInput(), DoEmptyProbe(), SelectTrashDirs(), ParseReply()]
    I = S.interp

    def body(V):
        ctx = V.ctx
        c = wire(V, 'trashcli.empty.main', 'trashcli.empty.empty_cmd',
                 'EmptyCmd.run_cmd')
        action = c['self'].attrs['empty_action']
        args_cls = V.I.lookup('trashcli.empty.empty_action', 'EmptyActionArgs')
        interactive = ctx.choose(2, 'interactive') == 1
        dry = ctx.choose(2, 'dry-run') == 1
        days = None
        if ctx.choose(2, 'days-given') == 1:
            days = arg_int('days')
        args = V.I.call(args_cls, [], {
            'user_specified_trash_dirs': [], 'all_users': False,
            'interactive': interactive, 'days': days, 'dry_run': dry,
            'verbose': 0, 'environ': V.I.lib.environ(), 'uid': arg_int('uid')})
        fs = fs_of(V.I)
        fs.mutation_allowed = False      # nothing but do_empty may mutate
        fv = S.resolve('trashcli.empty.empty_action', 'EmptyAction.run_action')
        for q in (('trashcli.empty.guard', 'Guard.ask_the_user'),
                  ('trashcli.empty.guard', 'Guard._interactive'),
                  ('trashcli.empty.guard', 'Guard.non_interactive'),
                  ('trashcli.empty.user', 'User.do_you_wanna_empty_trash_dirs'),
                  ('trashcli.empty.prepare_output_message',
                   'prepare_output_message')):
            S.note_function(*q)
        try:
            V.I.call_function(fv, [], {'self': action, 'args': args})
            outcome = 'return'
        except PyExc as pe:
            outcome = pe.value.cls.name
        calls = ctx.ghost.get('do_empty_calls', [])
        replies = ctx.ghost.get('replies', [])
        if interactive:
            if replies:
                yes = ParseReply.spec(replies[-1])
                ctx.oblige(prefix + '/purge-only-after-a-y-reply',
                           z3.BoolVal(len(calls) > 0) == yes)
                ctx.oblige(prefix + '/asked-exactly-once',
                           z3.BoolVal(len(replies) == 1))
            else:
                ctx.oblige(prefix + '/no-purge-on-end-of-input',
                           z3.BoolVal(len(calls) == 0 and outcome in (
                               'EOFError', 'KeyboardInterrupt')))
        else:
            ctx.oblige(prefix + '/non-interactive-purges-without-asking',
                       z3.BoolVal(len(calls) == 1 and not replies))
        for a in calls:
            ctx.oblige(prefix + '/dry-run-flag-reaches-the-emptier',
                       z3.BoolVal(a['dry_run'] is dry))
            ctx.oblige(prefix + '/days-reach-the-emptier',
                       z3.BoolVal(a['parsed_days'] is days))
        ctx.cover(prefix + '/cover-end')

    S.install(contracts)
    S.run_paths(prefix, body, active=[c.key for c in contracts])



def clock_wiring_vc(S, prefix='empty/clock-wiring'):
    """the clock trash-empty compares DeletionDate values with is LOCAL time
    (datetime.now): DeletionDate is written as local time by trash-put"""
    def body(V):
        c = wire(V, 'trashcli.empty.main', 'trashcli.empty.empty_cmd',
                 'EmptyCmd.run_cmd')
        dm = c['self'].attrs['empty_action'].attrs['emptier'].attrs['delete_mode']
        clock = dm.attrs['clock']
        rn = clock.attrs.get('real_now')
        from pyvc.values import BoundMethod, StaticM, Builtin
        f = rn.func if isinstance(rn, (BoundMethod, StaticM)) else rn
        V.ctx.oblige(prefix + '/the-real-clock-is-local-time-datetime-now',
                     z3.BoolVal(isinstance(f, Builtin) and f.name == 'datetime.now'),
                     info={'clock': repr(rn)})
        V.ctx.cover(prefix + '/cover-end')
    S.run_paths(prefix, body)


def leaf_vcs(S):
    """verify the body of every contract the purge VCs rely on (a change
    inside a callee is noticed only by the callee's own VC)"""
    S.install(loops={PARSE_PATH_LOOP: parse_path_loop_annot(),
                     dates.PARSE_LOOP: dates.parse_loop_annot()})
    S.verify(PathOfBackupCopy())
    S.verify(RemoveFile2())
    S.verify(RemoveFile2NoFaults(), prefix='nofault/remove_file2')
    S.install([RemoveFile2()])
    S.verify(RemoveFileIfExists(), active=[RemoveFile2().key])
    S.verify(ParsePath())
    S.verify(FilterMatches())
    S.verify(ParseReply())
    S.verify(IsInputInteractive())
    S.verify(ReadInputBody())
    S.verify(dates.OlderThan())
    S.verify(dates.ParseDeletionDate())
    S.verify(dates.MaybeParseDeletionDate())
    S.verify(dates.ClockNow())
    clock_wiring_vc(S)
    deps = [dates.ParseDeletionDate(), dates.ClockNow(), dates.OlderThan()]
    S.install(deps)
    S.verify(OkToDelete(), active=[c.key for c in deps])
