"""C10: trash-empty DAYS purges exactly the entries trashed more than DAYS
days ago (DESIGN.md section 4, C10)."""
import os

import z3

from pyvc.replay import get_model, conc
from pyvc.scenario import Sandbox, us_to_text
from . import dates, purge, options

PROPERTY = 'C10'
LEVEL_NOTE = ('all obligations generated from the current /repo source of '
              'older_than, parse_deletion_date, Clock.get_now_value, '
              'ok_to_delete, Emptier.do_empty/files_to_delete, TrashDirReader, '
              'path_of_backup_copy, remove_file_if_exists are discharged for '
              'every DAYS>=0, clock value, info content, directory listing and '
              'scanner event sequence; loops are cut at invariants')

EXPECTED = [
    'empty-options/dry-run-only-with-its-flag',
    'empty-options/interactive-is-the-default-overridden-by-the-last-of-i-and-f',
    'empty-options/days-is-the-integer-operand',
    'empty-options/trash-dirs-are-the-option-values-in-order',
    'trashcli.empty.older_than.older_than/post/strictly-earlier',
    'trashcli.parse_trashinfo.parse_deletion_date.parse_deletion_date/post/',
    'trashcli.parse_trashinfo.parse_trashinfo.ParseTrashInfo.parse_trashinfo/loop0/inv-pres/',
    'trashcli.empty.clock.Clock.get_now_value/post/',
    'trashcli.empty.delete_according_date.DeleteAccordingDate.ok_to_delete/post/purge-iff-strictly-older',
    'empty/purged-iff-old-enough',
    'empty/entry-removed-whole-payload-then-info',
    'empty/orphan-purged-iff-no-info',
    'trashcli.lib.path_of_backup_copy.path_of_backup_copy/pre@Emptier.files_to_delete',
    'canary/older_than/post/canary-not-strict',
]


def build(S, tier, seed):
    purge.leaf_vcs(S)
    S.verify(dates.OlderThanCanary(), prefix='canary/older_than')
    purge.empty_vc(S, dry_run=False)
    for o in S.obligations:
        if o.name.startswith('canary/'):
            o.kind = 'canary' if '/post/canary' in o.name else 'aux'
    options.empty_options_vc(S)


# ---------------------------------------------------------------------------
# replays
# ---------------------------------------------------------------------------
def replay_insane_stem(S, r, o):
    """an info file named '.trashinfo' next to a fresh entry: trash-empty 30
    must keep the fresh entry intact"""
    with Sandbox(S.interp.repo) as sb:
        td = sb.path('T')
        sb.add_entry(td, 'keep', path='/orig/keep', date='2999-01-01T00:00:00')
        sb.add_entry(td, 'old', path='/orig/old', date='2000-01-01T00:00:00',
                     info_name='.trashinfo')
        before = sb.snapshot(td)
        run = sb.run('trash-empty', ['-f', '--trash-dir', td, '30'],
                     env={'TRASH_DATE': '2020-01-01T00:00:00'})
        after = sb.snapshot(td)
    lost = [k for k in ('files/keep', 'info/keep.trashinfo')
            if before.get(k) != after.get(k)]
    return {'confirmed': bool(lost), 'scenario': "info/.trashinfo (old) next "
            "to fresh entry 'keep'; trash-empty -f --trash-dir T 30",
            'run': run, 'kept_entry_damaged': lost,
            'after': sorted(after)}


def replay_undecodable_info(S, r, o):
    with Sandbox(S.interp.repo) as sb:
        td = sb.path('T')
        sb.add_entry(td, 'old', path='/orig/old', date='2000-01-01T00:00:00')
        sb.add_entry(td, 'bad', raw_info=b'[Trash Info]\nPath=/x\xff\n'
                                         b'DeletionDate=2000-01-01T00:00:00\n')
        run = sb.run('trash-empty', ['-f', '--trash-dir', td, '30'],
                     env={'TRASH_DATE': '2020-01-01T00:00:00'})
        after = sb.snapshot(td)
    crashed = 'Traceback' in run['stderr']
    return {'confirmed': crashed or 'files/old' in after,
            'scenario': 'one old well-formed entry and one info with byte '
                        '0xff; trash-empty -f --trash-dir T 30',
            'run': run, 'after': sorted(after)}


def replay_threshold(S, r, o):
    """boundary scenario from the model: one entry dated date_us, clock
    now_us, DAYS days"""
    terms = o.info.get('terms') or {}
    m = get_model(o)
    if m is None or not terms:
        return {'confirmed': False, 'note': 'no model/terms'}
    days = conc(m, terms['days']) if terms.get('days') is not None else None
    now = conc(m, terms['now_us'])
    date = conc(m, terms['date_us'])
    lo = 31536000000000 * 1000   # year ~1000
    if not (lo <= now <= 315537897599999999 and lo <= date <= 315537897599999999):
        return {'confirmed': False, 'note': 'model dates before year 1000 '
                                            'cannot be written with strftime',
                'model': {'days': days, 'now': now, 'date': date}}
    with Sandbox(S.interp.repo) as sb:
        td = sb.path('T')
        sb.add_entry(td, 'e', path='/orig/e', date=us_to_text(date))
        args = ['-f', '--trash-dir', td] + ([str(days)] if days is not None else [])
        run = sb.run('trash-empty', args, env={'TRASH_DATE': us_to_text(now)})
        after = sb.snapshot(td)
    import datetime
    if days is None:
        want_removed = True
    else:
        want_removed = (date // 1000000) * 1000000 < \
            (now // 1000000) * 1000000 - days * 86400 * 1000000
    removed = 'files/e' not in after and 'info/e.trashinfo' not in after
    half = ('files/e' in after) != ('info/e.trashinfo' in after)
    return {'confirmed': (removed != want_removed) or half,
            'scenario': {'days': days, 'now': us_to_text(now),
                         'date': us_to_text(date)},
            'run': run, 'removed': removed, 'expected_removed': want_removed,
            'after': sorted(after)}


def age_battery(repo):
    """native: trash-empty DAYS around the threshold with a fixed TRASH_DATE,
    and with the REAL clock in time zones away from UTC (DeletionDate is local
    time: the comparison must use the local clock)"""
    import subprocess
    problems = []
    now = '2020-01-10T12:00:00'
    cases = [('2020-01-09T12:00:00', 1, False), ('2020-01-09T11:59:59', 1, True),
             ('2020-01-09T12:00:01', 1, False), ('2020-01-10T12:00:00', 0, False),
             ('2020-01-10T11:59:59', 0, True), ('2020-01-11T00:00:00', 0, False),
             ('2010-01-01T00:00:00', 3650, True), ('2010-01-13T12:00:00', 3650, False)]
    for date, days, want in cases:
        with Sandbox(repo) as sb:
            td = sb.path('T')
            sb.add_entry(td, 'e', path='/orig/e', date=date)
            sb.add_entry(td, 'nodate', path='/orig/n', date=None)
            run = sb.run('trash-empty', ['-f', '--trash-dir', td, str(days)],
                         env={'TRASH_DATE': now})
            after = sb.snapshot(td)
            removed = 'files/e' not in after and 'info/e.trashinfo' not in after
            if removed != want or ('files/e' in after) != ('info/e.trashinfo' in after):
                problems.append('entry dated %s, now %s, DAYS=%d: removed=%s, expected %s'
                                % (date, now, days, removed, want))
            if 'info/nodate.trashinfo' not in after or 'files/nodate' not in after:
                problems.append('DAYS=%d purged an entry without a date' % days)
    for tz, ago, days, want in (('JST-9', '2 seconds ago', 0, True),
                                ('AKST9', '21 hours ago', 1, False),
                                ('AKST9', '27 hours ago', 1, True),
                                ('JST-9', '21 hours ago', 1, False),
                                ('JST-9', '27 hours ago', 1, True)):
        date = subprocess.run(['date', '+%Y-%m-%dT%H:%M:%S', '-d', ago],
                              env={'TZ': tz, 'PATH': os.environ.get('PATH', '')},
                              capture_output=True, text=True).stdout.strip()
        with Sandbox(repo) as sb:
            td = sb.path('T')
            sb.add_entry(td, 'e', path='/orig/e', date=date)
            run = sb.run('trash-empty', ['-f', '--trash-dir', td, str(days)],
                         env={'TZ': tz})
            after = sb.snapshot(td)
            removed = 'files/e' not in after and 'info/e.trashinfo' not in after
            if removed != want:
                problems.append('TZ=%s, entry trashed %s (local time %s), real clock, '
                                'DAYS=%d: removed=%s, expected %s' % (
                                    tz, ago, date, days, removed, want))
    return {'confirmed': bool(problems), 'problems': problems[:10]}


def _battery(S, r, o):
    return age_battery(S.interp.repo)


REPLAYERS = {
    'empty/clock-wiring': _battery,
    'trashcli.empty.older_than.older_than/': dates.older_than_replayer(),
    'trashcli.lib.path_of_backup_copy.path_of_backup_copy/pre@':
        replay_insane_stem,
    'trashcli.empty.delete_according_date.DeleteAccordingDate.ok_to_delete/nothrow':
        replay_undecodable_info,
    'empty/nothrow': replay_undecodable_info,
    'empty/purged-iff-old-enough': replay_threshold,
    'trashcli.empty.delete_according_date.DeleteAccordingDate.ok_to_delete/post/purge-iff':
        replay_threshold,
    '': _battery,
}
KF_CLASSES = {}
