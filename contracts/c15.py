"""C15: killing restore, empty or rm at any instant never strands a payload
without info."""
import os
from . import purge, restore, scenarios, dates

PROPERTY = 'C15'
LEVEL_NOTE = ('per-entry ordering monitors, checked on every path of the '
              'three commands: the info file is removed only after the payload '
              'removal/move was issued (restore: move then remove info; empty: '
              'payload yielded before info; rm: remove_file_if_exists(payload) '
              'before remove_file2(info)); since every prefix of a path is '
              'itself checked, the order holds at every kill point between two '
              'modelled events; re-runs: neither purge path requires the '
              'payload to exist')
EXPECTED = [
    'restore/info-removed-only-after-the-payload-left',
    'restore/only-the-info-file-is-removed',
    'empty/entry-removed-whole-payload-then-info',
    'rm/entry-removed-whole-payload-then-info',
    'trashcli.fs.RealRemoveFileIfExists.remove_file_if_exists/post/acts-iff-lexists',
]


def build(S, tier, seed):
    purge.leaf_vcs(S)
    restore.restore_one_vc(S)
    purge.empty_vc(S, dry_run=False)
    purge.rm_vc(S)


def kill_points_restore(repo, max_ops=30):
    from pyvc.scenario import Sandbox
    problems = []
    explored = 0
    for payload in ('file', 'dir', ('link', '/nonexistent')):
        k = 1
        while k <= max_ops:
            with Sandbox(repo) as sb:
                td = sb.path('T')
                work = sb.path('work')
                os.makedirs(work)
                sb.add_entry(td, 'x', path=os.path.join(work, 'sub', 'x'),
                             payload=payload)
                run = sb.run_faulty('trash-restore', ['--trash-dir', td, work],
                                    {'kill_at': k, 'stdin': '0\n'}, cwd=work)
                explored += 1
                snap = sb.snapshot()
                in_trash = 'T/files/x' in snap
                restored = 'work/sub/x' in snap
                info = 'T/info/x.trashinfo' in snap
                if in_trash and not info:
                    problems.append('restore %r killed at op %d: payload '
                                    'without info' % (payload, k))
                if not in_trash and not restored:
                    problems.append('restore %r killed at op %d: entry lost'
                                    % (payload, k))
                if run['exit'] != 99:
                    break
                # what is left can still be purged
                sb.run('trash-empty', ['-f', '--trash-dir', td])
                left = [x for x in sb.snapshot(td)
                        if x.startswith('files/') or x.startswith('info/')]
                if left:
                    problems.append('restore killed at op %d: leftovers not '
                                    'purgeable: %r' % (k, left))
            k += 1
    return {'confirmed': bool(problems), 'problems': problems[:10],
            'kill_points_explored': explored}


def _battery(S, r, o):
    a = scenarios.kill_points_purge(S.interp.repo)
    b = kill_points_restore(S.interp.repo)
    c = scenarios.put_xdev_battery(S.interp.repo, 'restore')
    return {'confirmed': a['confirmed'] or b['confirmed'] or c['confirmed'],
            'problems': (a.get('problems', []) + b.get('problems', []) +
                         c.get('problems', []))[:12],
            'purge': a, 'restore': b, 'cross_device_restore': c}


REPLAYERS = {'': _battery}
KF_CLASSES = {}


def finalize_args(S, tier, seed):
    return {'extra_assumptions': [
        'each modelled primitive is atomic with respect to a kill; a kill '
        'inside shutil.rmtree/shutil.move is represented by the phase model '
        '(partial payload still has its info: the info is removed afterwards)']}
