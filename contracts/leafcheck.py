"""Leaf oracles as replay builders: a refuted obligation of a leaf function
gets a native witness when the bounded differential check of that leaf
(pyvc/leaf_real.py: real function vs an independent oracle on generated
inputs) shows a wrong result.  Bounded, never counted as proof."""
import json
import os
import subprocess

LEAF_FOR = [
    ('trashcli.lib.path_of_backup_copy.path_of_backup_copy', 'path_of_backup_copy'),
    ('trashcli.rm.filter.Filter.matches', 'filter_matches'),
    ('trashcli.fs.RealRemoveFile2', 'removers'),
    ('nofault/remove_file2', 'removers'),
    ('trashcli.fs.RealRemoveFileIfExists', 'removers'),
    ('trashcli.fs.RealRemoveFile.', 'removers'),
    ('trashcli.parse_trashinfo', 'parsers'),
    ('restore-reader/', 'parsers'),
    ('roundtrip/parse_path', 'parsers'),
    ('trashcli.empty.is_input_interactive', 'is_input_interactive'),
    ('trashcli.empty.parse_reply', 'replies'),
    ('trashcli.lib.my_input', 'read_input'),
    ('trashcli.fs.RealAtomicWrite', 'atomic_write'),
    ('trashcli.empty.older_than', 'older_than'),
    ('put/run', 'exit_status'),
    ('trashcli.put.core.candidate.Candidate.shrink_user', 'shrink_user'),
    ('sort/', 'sort'),
    ('parse_indexes', 'parse_indexes'),
    ('trashcli.restore.trashed_file.TrashedFile.original_location_matches_path', 'scope'),
]

_CACHE = {}


def run_leaves(repo, which):
    key = (repo, which)
    if key in _CACHE:
        return _CACHE[key]
    script = os.path.join(os.path.dirname(os.path.dirname(os.path.abspath(__file__))),
                          'pyvc', 'leaf_real.py')
    try:
        p = subprocess.run(['/venv/bin/python', script, which], capture_output=True,
                           text=True, timeout=600, cwd='/',
                           env=dict(os.environ, PYTHONPATH=repo))
    except Exception as e:
        return {'error': repr(e)}
    out = {'error': (p.stderr or '')[-500:]}
    for l in p.stdout.split('\n'):
        if l.startswith('LEAF-RESULT '):
            out = json.loads(l[len('LEAF-RESULT '):])
    _CACHE[key] = out
    return out


def leaf_replay(S, obligation_name):
    """{'confirmed': bool, ...} or None when no leaf oracle covers the
    obligation"""
    for prefix, leaf in LEAF_FOR:
        if obligation_name.startswith(prefix):
            r = run_leaves(S.interp.repo, leaf)
            d = r.get(leaf) or {}
            return {'confirmed': bool(d.get('problems')), 'leaf_oracle': leaf,
                    'cases': d.get('cases'), 'problems': d.get('problems'),
                    'error': d.get('error') or r.get('error')}
    return None


def leaves_of_session(S):
    names = set()
    for n in getattr(S, 'results', {}) or {}:
        for prefix, leaf in LEAF_FOR:
            if n.startswith(prefix):
                names.add(leaf)
    return sorted(names)


def all_leaves(repo, which=None):
    """thorough tier: the leaf oracles of the functions this property's VCs
    have obligations for"""
    if which is not None and not which:
        return {'what': 'leaf oracles: none applies', 'cases': 0, 'problems': [],
                'confirmed': False, 'counts_as_proof': False}
    r = run_leaves(repo, ','.join(which) if which else 'all')
    problems = []
    cases = 0
    for k, v in sorted(r.items()):
        if isinstance(v, dict):
            cases += v.get('cases') or 0
            problems += ['%s: %s' % (k, p) for p in (v.get('problems') or [])]
            if v.get('error'):
                problems.append('%s: oracle crashed: %s' % (k, v['error'][-300:]))
    return {'what': 'leaf functions vs independent oracles on generated inputs',
            'kind': 'battery', 'cases': cases, 'problems': problems[:12],
            'confirmed': bool(problems), 'counts_as_proof': False}
