"""C16: trash-put's exit status tells the truth and arguments are handled
independently."""
from . import put, trashdirs, purge, scenarios, options

PROPERTY = 'C16'

def _base(S):
    S.install([trashdirs.VolumeOf(), trashdirs.HomeTrashDirPath(), put.MkdirP(),
               put.ForFile(), put.PutMove(), put.PutRemoveFile()],
              loops={trashdirs.VOLUME_OF_LOOP: trashdirs.volume_of_loop_annot()})
    return [trashdirs.VolumeOf().key, trashdirs.HomeTrashDirPath().key]

LEVEL_NOTE = ('run_put/trash_each: every argument processed once, in order, '
              'with the same options; exit 0 iff no argument failed - for argument '
              'lists of EVERY length (loop cut at the invariant of '
              'Context.trash_each; lists of 0..3 concrete arguments are checked '
              'again without the cut); '
              'trash_single: exception-free for every argument (incl. names that '
              'cannot be encoded), every Failure preceded by a diagnostic naming '
              'the argument; no attribute of a shared object is assigned while an '
              'argument is processed')
EXPECTED = [
    'put/run-any-length/exit-status-0-iff-no-argument-failed',
    'put/run-any-length/the-call-is-for-this-argument-with-the-same-options',
    'trashcli.put.context.Context.trash_each/loop0/inv-pres/failed-list-non-empty-iff-an-argument-failed-so-far',
    'put-options/mode-is-the-last-of-f-and-i',
    'put-options/home-fallback-only-with-its-flag',
    'put-options/trash-dir-is-the-last-trash-dir-value',
    'put-options/files-are-the-operands-in-order',
    'put-options/no-file-operand-is-a-usage-error-with-non-zero-exit',
    'put/run/every-argument-is-processed-once-in-order',
    'put/run/exit-status-0-iff-no-argument-failed',
    'put/run/same-options-for-every-argument',
    'put/single/every-failure-is-reported-naming-the-argument',
    'put/single/result-is-the-result-of-trashing-that-argument',
    'put/file/failure-is-reported-naming-the-argument',
    'trashcli.put.janitor_tools.info_creator.TrashInfoCreator.make_trashinfo_data/nothrow',
    'put/attempt/no-state-carried-over-to-the-next-argument',
    'put/file/no-state-carried-over-to-the-next-argument',
    'put/single/no-state-carried-over-to-the-next-argument',
]


def build(S, tier, seed):
    act = put.leaf_vcs(S)
    put.trash_file_in_vc(S, conservation=False)
    put.trash_file_vc(S)
    put.trash_single_vc(S)
    put.run_put_vc(S)
    put.run_put_any_length_vc(S)
    options.put_options_vc(S)


def _battery(S, r, o):
    return scenarios.put_args_battery(S.interp.repo)


REPLAYERS = {'': _battery}


KF_CLASSES = {}


def finalize_args(S, tier, seed):
    return {'bounded': [{'what': 'option VC put-options: <= 2 option tokens '
                                 'and <= 2 operands per argument vector',
                         'counts_as_proof': False}],
            'extra_assumptions': ['argparse is modelled (pyvc/argmodel.py) for argument vectors of the canonical shape options.. [--] operands..; abbreviations, --opt=value, clustered flags and operands before options are outside the model; the option VC is bounded to <= 2 option tokens and <= 2 operands']}
