"""Contracts and VCs of trash-restore: C02, C06, C13, C15 (restore), C19
(restore), C08/C20 (restore side)."""
import z3

from pyvc.values import tid

from pyvc import spec, fsmodel
from pyvc.fsmodel import ABSENT, DIR, FILE, SYMLINK, fs_of
from pyvc.vc import Contract, LoopAnnot
from pyvc.values import (Sym, mk, z3bool, z3int, z3str, PyExc, Obj, TupleObj,
                         SymSeq, PathEnd, is_sym, RangeV)
from pyvc.libmodels import DateV, DATE_MAX_US
from .common import SV, arg_str, arg_int, arg_bool, T, wire
from . import purge, dates


def restorer_of(V):
    c = wire(V, 'trashcli.restore.main', 'trashcli.restore.restore_cmd',
             'RestoreCmd.run')
    cmd = c['self']
    handler = cmd.attrs['run_restore_action'].attrs['handler']
    return cmd, handler, handler.attrs['restorer']


def make_trashed_file(V, suffix=''):
    cls = V.I.lookup('trashcli.restore.trashed_file', 'TrashedFile')
    loc = arg_str('original_location' + suffix)
    info = arg_str('info_file' + suffix)
    payload = arg_str('original_file' + suffix)
    date = None
    if V.ctx.choose(2, 'has-date') == 1:
        us = z3.Int('arg.deletion_date' + suffix)
        V.ctx.assume(z3.And(us >= 0, us <= DATE_MAX_US))
        date = DateV(us)
    return V.I.call(cls, [loc, date, info, payload], {})


def restore_one_vc(S, prefix='restore'):
    """Restorer.restore_trashed_file on an arbitrary entry, destination
    state and fault sequence"""
    I = S.interp

    def body(V):
        ctx = V.ctx
        _cmd, _h, restorer = restorer_of(V)
        tf = make_trashed_file(V)
        overwrite = ctx.choose(2, 'overwrite') == 1
        fs = fs_of(V.I)
        loc = T(tf.items[0])
        info = T(tf.items[2])
        payload = T(tf.items[3])
        dest_lkind = fs.lkind(loc)
        dest_kind = fs.kind(loc)
        fv = S.resolve('trashcli.restore.restorer',
                       'Restorer.restore_trashed_file')
        for q in (('trashcli.restore.file_system',
                   'RealRestoreReadFileSystem.path_exists'),
                  ('trashcli.restore.file_system',
                   'RealRestoreWriteFileSystem.move'),
                  ('trashcli.restore.file_system',
                   'RealRestoreWriteFileSystem.mkdirs'),
                  ('trashcli.restore.file_system',
                   'RealRestoreWriteFileSystem.remove_file'),
                  ('trashcli.fs', 'RealMove.move'),
                  ('trashcli.fs', 'RealMkDirs.mkdirs'),
                  ('trashcli.fs', 'RealRemoveFile.remove_file')):
            S.note_function(*q)
        try:
            V.I.call_function(fv, [], {'self': restorer, 'trashed_file': tf,
                                       'overwrite': overwrite})
            outcome = ('return', None)
        except PyExc as pe:
            outcome = ('raise', pe.value)
        evs = fs.events
        mut = [e for e in evs]
        # --- C06 ------------------------------------------------------
        if not overwrite:
            refused = outcome[0] == 'raise' and not mut and \
                outcome[1].cls.name == 'OSError' and \
                outcome[1].attrs.get('op') is None
            ctx.oblige(prefix + '/refuses-any-existing-destination',
                       z3.Implies(dest_lkind != ABSENT, z3.BoolVal(refused)),
                       info={'terms': {'dest_lkind': dest_lkind,
                                       'dest_kind': dest_kind}})
            ctx.oblige(prefix + '/refusal-only-when-destination-exists',
                       z3.Implies(z3.BoolVal(refused), dest_lkind != ABSENT))
        # --- trace shape (C02, C15) --------------------------------------
        allowed = True
        stage = 0     # 0 before move, 1 move done ok, 2 info removal started
        move_ok = False
        info_removed = False
        conds = []
        parent = spec.dirname(ctx, loc)
        for e in evs:
            if e.op == 'makedirs' and stage == 0:
                conds.append(('mkdirs-creates-the-parent-of-the-destination',
                              e.args[0] == parent))
            elif e.op in ('rename', 'copy', 'delete-src', 'move-refused') \
                    and stage == 0:
                if e.op == 'rename':
                    conds.append(('move-source-is-the-payload',
                                  e.args[0] == payload))
                    if not e.extra.get('dst_was_dir'):
                        conds.append(
                            ('move-destination-is-the-original-location',
                             e.args[1] == loc))
                    if e.ok:
                        stage = 1
                        move_ok = True
                elif e.op == 'delete-src' and e.ok:
                    stage = 1
                    move_ok = True
            elif e.op in ('remove', 'rmtree') and stage >= 1:
                stage = 2
                conds.append(('only-the-info-file-is-removed',
                              e.args[0] == info))
                if e.ok:
                    info_removed = True
            else:
                allowed = False
                conds.append(('unexpected-event-%s' % e.op, z3.BoolVal(False)))
        for n, f in conds:
            ctx.oblige(prefix + '/' + n, f)
        ctx.oblige(prefix + '/info-removed-only-after-the-payload-left',
                   z3.BoolVal(allowed))
        ctx.oblige(prefix + '/move-preserves-metadata-default-copy2',
                   z3.BoolVal(not [e for e in ctx.events
                                   if e[0] == 'shutil.move-options']))
        if outcome[0] == 'return':
            ctx.oblige(prefix + '/success-means-moved-and-info-removal-attempted',
                       z3.BoolVal(move_ok))
        else:
            ctx.oblige(prefix + '/failure-is-an-IOError',
                       z3.BoolVal(outcome[1].cls.issubclass(
                           V.I.lib.exc_classes['OSError'])),
                       info={'exception': outcome[1].cls.name})
        ctx.cover(prefix + '/cover-end')

    S.run_paths(prefix, body)


# ---------------------------------------------------------------------------
class ScopeMatch(Contract):
    """TrashedFile.original_location_matches_path(path): the entry is the
    requested directory or lies beneath it at a component boundary"""
    module = 'trashcli.restore.trashed_file'
    qualname = 'TrashedFile.original_location_matches_path'

    def setup(self, V):
        tf = make_trashed_file(V)
        return {'self': tf, 'path': arg_str('path')}

    def pre(self, V, a):
        # established by parse_restore_args: normpath of an absolute path
        p = T(a['path'])
        return [spec.is_abs_clean(p)]

    @staticmethod
    def spec(loc, p):
        return z3.Or(p == SV('/'), loc == p,
                     z3.PrefixOf(z3.Concat(p, SV('/')), loc))

    def post(self, V, a, out):
        loc = T(a['self'].items[0])
        return [('component-boundary-scope',
                 T(out[1]) == self.spec(loc, T(a['path'])))]

    def apply(self, V, a):
        loc = T(a['self'].items[0])
        return mk(self.spec(loc, T(a['path'])))


# ---------------------------------------------------------------------------
def sort_vc(S, prefix='sort'):
    """sort_files(sort, files) for every Sort member and every pair of
    entries (dated / undated): no exception, result is a list that is a
    permutation of the input"""
    def body(V):
        ctx = V.ctx
        sort_cls = V.I.lookup('trashcli.restore.args', 'Sort')
        members = sort_cls.enum_members
        d = ctx.choose(len(members), 'sort-mode')
        n = 1 + ctx.choose(3, 'n-entries')
        files = [make_trashed_file(V, str(k)) for k in range(n)]
        # what run_action passes is a generator
        gen_src = V.I.lookup('trashcli.restore.run_restore_action',
                             'RunRestoreAction.all_files_trashed_from_path')
        fv = S.resolve('trashcli.restore.sort_method', 'sort_files')
        S.note_function('trashcli.restore.sort_method', 'sorter_for')
        S.note_function('trashcli.restore.sort_method', 'SortFunction.sort_files')
        S.note_function('trashcli.restore.sort_method', 'NoSorter.sort_files')
        from pyvc.values import IterV
        arg = IterV(iter(list(files))) if ctx.choose(2, 'as-iterator') else list(files)
        try:
            r = V.I.call_function(fv, [], {'sort': members[d],
                                           'trashed_files': arg})
        except PyExc as pe:
            ctx.oblige(prefix + '/nothrow-for-every-sort-mode',
                       z3.BoolVal(False), kind='nothrow',
                       info={'exception': pe.value.cls.name,
                             'sort': members[d].attrs['name'],
                             'dates': [f.items[1] is not None for f in files]})
            return
        ok = isinstance(r, list) and len(r) == len(files) and \
            all(any(x is f for x in r) for f in files)
        ctx.oblige(prefix + '/result-is-a-list-permutation',
                   z3.BoolVal(bool(ok)))
        if isinstance(r, list) and members[d].attrs['name'] == 'DoNot':
            ctx.oblige(prefix + '/none-keeps-the-order',
                       z3.BoolVal(all(x is f for x, f in zip(r, files))))
        ctx.cover(prefix + '/cover-end')

    S.run_paths(prefix, body)


# ---------------------------------------------------------------------------
# C13: the reply grammar and the pipeline
# ---------------------------------------------------------------------------
PARSE_INDEXES_PARTS_LOOP = ('trashcli.restore.restore_asking_the_user',
                            'parse_indexes', 0)


def part_spec(ctx, part):
    """denotation of one comma-separated part (C13): returns
    (kind, a, b, valid) where kind 'single'/'range'"""
    dash = SV('-')
    return None


def parts_loop_annot(prefix='parse_indexes'):
    """for index in user_input.split(','): arbitrary part; at the end of the
    iteration the element appended to `sequences` is the denotation of the
    part (C13 grammar, per part)"""
    def on_element(I, env, seq, i, x):
        I.ctx.ghost['cur_part'] = T(x)
        I.ctx.ghost['seq_len_before'] = len(env.vars['sequences'])
        # str.split: the part contains no comma
        I.ctx.assume(z3.Not(z3.Contains(T(x), SV(','))))

    def at_end(I, env, seq, i, x):
        ctx = I.ctx
        part = ctx.ghost['cur_part']
        seqs = env.vars['sequences']
        new = seqs[ctx.ghost['seq_len_before']:]
        ctx.oblige(prefix + '/part/one-sequence-per-part',
                   z3.BoolVal(len(new) == 1))
        if len(new) != 1:
            return
        el = new[0]
        has_dash = z3.Contains(part, SV('-'))
        if el.cls.name == 'Single':
            idx = el.items[0]
            ctx.oblige(prefix + '/part/single-is-the-integer-of-a-dashless-part',
                       z3.And(z3.Not(has_dash), spec.int_ok_f(part),
                              T(idx) == spec.int_val_f(part)))
        elif el.cls.name == 'Range':
            a, b = el.attrs['start'], el.attrs['stop']
            fst = ctx.fresh_str('first')
            lst = ctx.fresh_str('last')
            shape = z3.And(part == z3.Concat(fst, SV('-'), lst),
                           z3.Not(z3.Contains(fst, SV('-'))),
                           z3.Not(z3.Contains(lst, SV('-'))))
            # exists first,last: witnessed by the code's own split results
            pieces_ = ctx.ghost.get('last_split')
            ctx.oblige(prefix + '/part/range-is-a-b-with-both-ends-integers',
                       z3.And(has_dash, T(a) == spec.int_val_f(pieces_[0]),
                              T(b) == spec.int_val_f(pieces_[1]),
                              spec.int_ok_f(pieces_[0]), spec.int_ok_f(pieces_[1]),
                              pieces_[0] != SV(''), pieces_[1] != SV(''),
                              part == z3.Concat(pieces_[0], SV('-'), pieces_[1]),
                              z3.Not(z3.Contains(pieces_[0], SV('-'))),
                              z3.Not(z3.Contains(pieces_[1], SV('-')))))
        else:
            ctx.oblige(prefix + '/part/known-sequence-kind', z3.BoolVal(False))

    # `sequences` grows in the body: this VC claims the per-part denotation
    # only (checked at the end of the arbitrary iteration); nothing is claimed
    # about the code after the loop here - the composition over whole replies
    # is the (bounded) pipeline VC
    return LoopAnnot(on_element=on_element, at_iteration_end=at_end,
                     mutates={'append of a list'},
                     keep={'sequences', 'split', 'first', 'last', 'int_index'})


def parse_part_vc(S, prefix='parse_indexes'):
    """per-part semantics of parse_indexes for an arbitrary number of parts
    (loop cut); invalid parts raise InvalidEntry (or ValueError for more than
    one dash) before anything is returned"""
    loops = {PARSE_INDEXES_PARTS_LOOP: parts_loop_annot(prefix)}

    def hook(I_, fv, vals):
        pass

    def body(V):
        ctx = V.ctx
        fv = S.resolve('trashcli.restore.restore_asking_the_user',
                       'parse_indexes')
        S.note_function('trashcli.restore.restore_asking_the_user', 'parse_int_index')
        reply = arg_str('user_input')
        n = arg_int('len_trashed_files')
        ctx.assume(T(n) >= 0)
        # record the pieces of the a-b split for the monitor
        orig_split = V.I.lib.split_model

        def split_rec(t, sep, maxsplit=-1):
            r = orig_split(t, sep, maxsplit)
            if sep == '-' and isinstance(r, list) and len(r) == 2:
                ctx.ghost['last_split'] = [T(r[0]), T(r[1])]
            return r
        V.I.lib.split_model = split_rec
        try:
            V.I.call_function(fv, [], {'user_input': reply,
                                       'len_trashed_files': n})
            ctx.cover(prefix + '/cover-returns')
        except PyExc as pe:
            nm = pe.value.cls.name
            ctx.oblige(prefix + '/invalid-reply-raises-InvalidEntry-or-ValueError',
                       z3.BoolVal(nm in ('InvalidEntry', 'ValueError')),
                       info={'exception': nm})
        finally:
            V.I.lib.split_model = orig_split

    S.install([], loops)
    S.run_paths(prefix, body)
    # the parts loop annotation must not leak into other VCs
    del S.interp.loop_annots[PARSE_INDEXES_PARTS_LOOP]


class RestoreProbe(Contract):
    """Restorer.restore_trashed_file abstracted in the pipeline VC: records
    the call; returns or raises IOError (its own VC: restore_one_vc)"""
    module = 'trashcli.restore.restorer'
    qualname = 'Restorer.restore_trashed_file'

    def apply(self, V, a):
        calls = V.ctx.ghost.setdefault('restore_calls', [])
        if V.ctx.ghost.get('restore_failed'):
            V.ctx.ghost['restore_after_failure'] = True
        calls.append((a['trashed_file'], a['overwrite']))
        if V.ctx.choose(2, 'restore-outcome') == 1:
            V.ctx.ghost['restore_failed'] = True
            raise PyExc(V.I.make_exc('OSError', 'Refusing to overwrite'))
        return None


class StructuredInput(Contract):
    """RealInput.read_input for the pipeline VC: a reply of 1..3
    comma-separated parts (each part arbitrary), or '', or EOF/interrupt.
    BOUNDED: at most 2 parts."""
    module = 'trashcli.lib.my_input'
    qualname = 'RealInput.read_input'

    def apply(self, V, a):
        ctx = V.ctx
        d = ctx.choose(5, 'input')
        ctx.events.append(('prompt', a['prompt']))
        if d == 0:
            raise PyExc(V.I.make_exc('EOFError', ''))
        if d == 1:
            raise PyExc(V.I.make_exc('KeyboardInterrupt', ''))
        if d == 2:
            ctx.ghost['reply_parts'] = []
            return ''
        k = d - 2
        parts = []
        for i in range(k):
            p = ctx.fresh_str('part%d' % i)
            ctx.assume(z3.Not(z3.Contains(p, SV(','))))
            ctx.assume(z3.Not(z3.Contains(p, SV('\n'))))
            parts.append(p)
        if k == 1:
            ctx.assume(parts[0] != SV(''))
        ctx.ghost['reply_parts'] = parts
        pieces_ = []
        for i, p in enumerate(parts):
            if i:
                pieces_.append(SV(','))
            pieces_.append(p)
        return Sym(z3.Concat(*pieces_) if len(pieces_) > 1 else pieces_[0], 'str')


def pipeline_vc(S, prefix='pipeline'):
    """HandlerImpl.handle_trashed_files: listing, reply, validation before
    any restore, selection by index, exit status (C13; C06 multi-index)"""
    contracts = [RestoreProbe(), StructuredInput()]

    def denote_part(ctx, p):
        """(valid, list-of-index-terms or None) is not computable in closed
        form for ranges; the monitor below re-derives it per path"""
        return None

    def body(V):
        ctx = V.ctx
        _cmd, handler, _r = restorer_of(V)
        n = (0, 2)[ctx.choose(2, 'n-files')]
        files = [make_trashed_file(V, str(k)) for k in range(n)]
        overwrite = arg_bool('overwrite')
        fv = S.resolve('trashcli.restore.handler',
                       'HandlerImpl.handle_trashed_files')
        for q in (('trashcli.restore.handler', 'HandlerImpl.restore_asking_the_user'),
                  ('trashcli.restore.restore_asking_the_user',
                   'RestoreAskingTheUser.restore_asking_the_user'),
                  ('trashcli.restore.restore_asking_the_user',
                   'RestoreAskingTheUser.read_user_input'),
                  ('trashcli.restore.restore_asking_the_user',
                   'RestoreAskingTheUser.restore_selected_files'),
                  ('trashcli.restore.restore_asking_the_user',
                   'trashed_files_to_restore'),
                  ('trashcli.restore.restore_asking_the_user', 'parse_indexes'),
                  ('trashcli.restore.sequences', 'Sequences.all_indexes'),
                  ('trashcli.restore.range', 'Range.__iter__'),
                  ('trashcli.restore.real_output', 'RealOutput.append_event'),
                  ('trashcli.restore.real_output', 'RealOutput.die'),
                  ('trashcli.restore.output_recorder', 'OutputRecorder.apply_to')):
            S.note_function(*q)
        outcome = 'return'
        orig_split = V.I.lib.split_model

        def split_rec(t, sep, maxsplit=-1):
            r = orig_split(t, sep, maxsplit)
            if sep == '-' and isinstance(r, list) and len(r) == 2:
                ctx.ghost.setdefault('splits', {})[tid(t)] = \
                    (T(r[0]), T(r[1]))
            return r
        V.I.lib.split_model = split_rec
        try:
            V.I.call_function(fv, [], {'self': handler, 'trashed_files': files,
                                       'overwrite': overwrite})
        except PyExc as pe:
            outcome = pe.value.cls.name
            if outcome == 'SystemExit':
                outcome = ('exit', pe.value.attrs.get('code'))
        finally:
            V.I.lib.split_model = orig_split
        calls = ctx.ghost.get('restore_calls', [])
        parts = ctx.ghost.get('reply_parts')
        stdout = [e for e in ctx.events if e[0] == 'print' and e[1] == 'stdout']
        # listing: one numbered line per entry, numbered from 0, in list order
        if n > 0:
            ok = len(stdout) >= n
            ctx.oblige(prefix + '/lists-every-entry-numbered-from-0',
                       z3.BoolVal(ok))
            for i in range(min(n, len(stdout))):
                line = z3str(stdout[i][2])
                loc = T(files[i].items[0])
                ctx.oblige(prefix + '/line-i-shows-entry-i',
                           z3.And(z3.SuffixOf(z3.Concat(SV(' '), loc), line),
                                  z3.PrefixOf(SV('%4d ' % i), line)))
        else:
            ctx.oblige(prefix + '/no-entries-no-prompt',
                       z3.BoolVal(parts is None and not calls))
        # every restore call is for an entry of the list, with the flag given
        for tf, ow in calls:
            ctx.oblige(prefix + '/restores-only-listed-entries-with-the-given-flag',
                       z3.BoolVal(any(tf is f for f in files) and ow is overwrite))
        if parts is not None and len(parts) == 0:
            ctx.oblige(prefix + '/empty-reply-restores-nothing',
                       z3.BoolVal(not calls and outcome == 'return'))
        if parts is None and n > 0:
            ctx.oblige(prefix + '/end-of-input-restores-nothing',
                       z3.BoolVal(not calls))
        if parts and calls and outcome == 'return':
            # the entries restored are exactly those denoted by the reply,
            # in order: per part a dashless integer i -> [i]; a-b -> a..b
            expected = []
            okden = True
            for p in parts:
                if ctx.entails(z3.Not(z3.Contains(p, SV('-')))):
                    expected.append(spec.int_val_f(p))
                    continue
                ab = ctx.ghost.get('splits', {}).get(tid(p))
                if ab is None or not ctx.entails(
                        p == z3.Concat(ab[0], SV('-'), ab[1])):
                    okden = False
                    break
                a_, b_ = spec.int_val_f(ab[0]), spec.int_val_f(ab[1])
                for L in range(0, 4):
                    if ctx.entails(b_ - a_ + 1 == L) or (
                            L == 0 and ctx.entails(b_ - a_ + 1 <= 0)):
                        expected.extend([a_ + k for k in range(L)])
                        break
                else:
                    okden = False
                    break
            good = okden and len(expected) == len(calls)
            if good:
                for e_, (tf, _ow) in zip(expected, calls):
                    ks = [k for k, f in enumerate(files) if f is tf]
                    if len(ks) != 1 or not ctx.entails(e_ == ks[0]):
                        good = False
                        break
            ctx.oblige(prefix + '/restored-are-exactly-the-denoted-entries-in-order',
                       z3.BoolVal(bool(good)),
                       info={'n_calls': len(calls), 'n_expected': len(expected)})
        if parts:
            sel = ctx.ghost.get('selected')   # set by the hook below
            # validate-before-restore: if any restore happened, every index
            # denoted by the reply is within [0, n)
            den = ctx.ghost.get('denoted', None)
            if calls:
                ctx.oblige(prefix + '/restore-only-after-full-validation',
                           z3.BoolVal(ctx.ghost.get('validated', False)))
            if outcome != 'return' and not calls:
                ctx.oblige(prefix + '/invalid-reply-exits-non-zero',
                           z3.BoolVal(outcome == ('exit', 1) or outcome in (
                               'ValueError',)),
                           info={'outcome': repr(outcome)})
        if ctx.ghost.get('restore_failed'):
            ctx.oblige(prefix + '/a-refused-entry-stops-the-run-with-exit-1',
                       z3.BoolVal(outcome == ('exit', 1) and
                                  not ctx.ghost.get('restore_after_failure')),
                       info={'outcome': repr(outcome)})
            errs = [e for e in ctx.events if e[0] == 'print' and e[1] == 'stderr']
            ctx.oblige(prefix + '/a-refusal-is-reported-on-stderr',
                       z3.BoolVal(len(errs) >= 1))
        ctx.cover(prefix + '/cover-end')

    def hook(I_, fv, vals):
        # ghost: parse_indexes returned normally => the reply is validated
        if fv.qualname == 'RestoreAskingTheUser.restore_selected_files':
            I_.ctx.ghost['validated'] = True
            I_.ctx.ghost['selected'] = vals['selected_files']

    S.install(contracts)
    S.interp.call_hooks = [hook]
    S.interp.range_bound = 2
    S.run_paths(prefix, body, active=[c.key for c in contracts])
    S.interp.call_hooks = []
    S.interp.range_bound = 3



def restore_twice_vc(S, prefix='restore-twice'):
    """two entries with the same original location restored one after the
    other in one run (reply '0-1' / '0,1'): the second must be refused once
    the first is in place (C06 over a history inside one run)"""
    def body(V):
        ctx = V.ctx
        _cmd, _h, restorer = restorer_of(V)
        fs = fs_of(V.I)
        fs.fault_free = True
        cls = V.I.lookup('trashcli.restore.trashed_file', 'TrashedFile')
        loc = arg_str('original_location')
        tf1 = V.I.call(cls, [loc, None, arg_str('info1'), arg_str('payload1')], {})
        tf2 = V.I.call(cls, [loc, None, arg_str('info2'), arg_str('payload2')], {})
        l = loc.t
        # the trash entries are not the destination nor above/below it
        for t in (tf1.items[2].t, tf1.items[3].t, tf2.items[2].t, tf2.items[3].t):
            ctx.assume(z3.And(t != l, z3.Not(z3.PrefixOf(z3.Concat(t, SV('/')), l)),
                              z3.Not(z3.PrefixOf(z3.Concat(l, SV('/')), t))))
        ctx.assume(fs.lkind(tf1.items[3].t) != ABSENT)
        ctx.assume(fs.lkind(tf1.items[3].t) != DIR)
        fv = S.resolve('trashcli.restore.restorer', 'Restorer.restore_trashed_file')
        S.note_function('trashcli.restore.file_system',
                  'RealRestoreReadFileSystem.path_exists')
        try:
            V.I.call_function(fv, [], {'self': restorer, 'trashed_file': tf1,
                                       'overwrite': False})
        except PyExc:
            return          # the first restore was itself refused / failed
        n1 = len(fs.events)
        fs.frame_lkind(l)
        try:
            V.I.call_function(fv, [], {'self': restorer, 'trashed_file': tf2,
                                       'overwrite': False})
            refused = False
        except PyExc as pe:
            refused = len(fs.events) == n1
        ctx.oblige(prefix + '/second-entry-for-the-same-path-is-refused',
                   z3.BoolVal(refused))
        ctx.cover(prefix + '/cover-end')

    S.run_paths(prefix, body)
