"""Which trash directories (and which volume for each) the commands use:
volume_of, home trash path, the scanner (list/empty/rm), the restore side.
C07, C08, C09, C20."""
import z3

from pyvc import spec, fsmodel
from pyvc.fsmodel import (ABSENT, DIR, FILE, SYMLINK, fs_of, sticky_f,
                          ismount_f)
from pyvc.vc import Contract, LoopAnnot
from pyvc.values import (Sym, mk, z3bool, z3int, z3str, PyExc, Obj, TupleObj,
                         SymSeq, PathEnd, is_sym, StrSubObj)
from .common import SV, arg_str, arg_int, arg_bool, T, wire
from . import purge
from .purge import shaped_path, volume_at_f, volume_len_f

nm_f = z3.Function('nearest_mount', spec.State, z3.StringSort(),
                   z3.StringSort())
VOLUME_OF_LOOP = ('trashcli.fstab.volume_of_impl', 'VolumeOfImpl.volume_of', 0)
SCAN_VOLUMES_LOOP = purge.SCAN_VOLUMES_LOOP
RESTORE_VOLUMES_LOOP = ('trashcli.restore.trash_directories',
                        'TrashDirectories1.all_trash_directories', 1)


def unfold_nm(ctx, sigma, p):
    """nm(s,p) = p if p == dirname(p) or is_mount(s,p) else nm(s,dirname(p))"""
    ctx.used_axioms.add('spec function nearest_mount: recursive definition '
                        '(mount point at or above a path), unfolded once at '
                        'named terms')
    d = spec.dirname(ctx, p)
    ctx.assume(nm_f(sigma, p) == z3.If(
        z3.Or(p == d, ismount_f(sigma, p)), p, nm_f(sigma, d)))


class VolumeOf(Contract):
    """VolumeOfImpl.volume_of(path): the nearest mount point at or above
    abspath(path); terminates."""
    module = 'trashcli.fstab.volume_of_impl'
    qualname = 'VolumeOfImpl.volume_of'

    def setup(self, V):
        fsx = wire(V, 'trashcli.put.main', 'trashcli.put.trash_put_cmd',
                   'TrashPutCmd.run_put')
        fs_obj = fsx['self'].attrs['trasher'].attrs['fs']
        impl = fs_obj.attrs['impl']
        V.ctx.ghost['vo_arg'] = arg_str('path')
        return {'self': impl, 'path': V.ctx.ghost['vo_arg']}

    def post(self, V, a, out):
        fs = fs_of(V.I)
        p0 = spec.abspath(V.ctx, T(a['path']))
        r = T(out[1])
        return [('nearest-mount-point-of-abspath',
                 r == nm_f(fs.sigma, p0))]

    def apply(self, V, a):
        fs = fs_of(V.I)
        ctx = V.ctx
        p0 = spec.abspath(ctx, T(a['path']))
        r = nm_f(fs.sigma, p0)
        ctx.used_axioms.add(
            "ASSUMED lemma: nearest_mount(abspath(p)) is '/', '//' or an "
            "absolute path without trailing slash (abspath is normalised and "
            "dirname preserves that; the solvers left the inductive step "
            "undecided, so it is stated, not proved)")
        ctx.assume(rooted(r))
        if ctx.ghost.get('volume_no_shape_fork'):
            return Sym(r, 'str')
        if ctx.branch(r == SV('/'), 'volume-is-root'):
            return '/'
        if ctx.branch(r == SV('//'), 'volume-is-slashslash'):
            return '//'
        spec.mark_noendslash(ctx, r)
        return Sym(r, 'str')


def rooted(r):
    """'/', '//', or absolute without trailing slash and without an empty
    component after the (one or two) leading slashes: what abspath returns
    and what dirname preserves"""
    rest = z3.SubString(r, 1, z3.Length(r) - 1)
    return z3.Or(r == SV('/'), r == SV('//'),
                 z3.And(z3.PrefixOf(SV('/'), r),
                        z3.Not(z3.SuffixOf(SV('/'), r)),
                        z3.Not(z3.Contains(rest, SV('//')))))


def volume_of_loop_annot():
    def inv(I, env):
        ctx = I.ctx
        fs = fs_of(I)
        path = T(env.vars['path'])
        p0 = spec.abspath(ctx, T(ctx.ghost['vo_arg']))
        unfold_nm(ctx, fs.sigma, path)
        return [('same-nearest-mount-as-the-start',
                 nm_f(fs.sigma, path) == nm_f(fs.sigma, p0))]

    def variant(I, env):
        return z3.Length(T(env.vars['path']))

    return LoopAnnot(invariant=inv, variant=variant, types={'path': 'str'})


# ---------------------------------------------------------------------------
class HomeTrashDirPath(Contract):
    """home_trash_dir_path_from_env: $XDG_DATA_HOME/Trash when XDG_DATA_HOME
    is set and non-empty, else $HOME/.local/share/Trash when HOME is set,
    else nothing (C07)"""
    module = 'trashcli.lib.trash_dirs'
    qualname = 'home_trash_dir_path_from_env'

    def setup(self, V):
        return {'environ': V.I.lib.environ()}

    @staticmethod
    def table(environ):
        px, vx = environ.entry('XDG_DATA_HOME')
        ph, vh = environ.entry('HOME')
        use_x = z3.And(px, vx != SV(''))
        return use_x, z3.Concat(vx, SV('/Trash')), ph, \
            z3.Concat(vh, SV('/.local/share/Trash'))

    def post(self, V, a, out):
        use_x, xpath, has_h, hpath = self.table(a['environ'])
        r = out[1]
        if not isinstance(r, list) or len(r) > 1:
            return [('result-shape', z3.BoolVal(False))]
        if len(r) == 1:
            return [('xdg-then-home',
                     z3.Or(z3.And(use_x, T(r[0]) == xpath),
                           z3.And(z3.Not(use_x), has_h, T(r[0]) == hpath)))]
        return [('nothing-only-without-xdg-and-home',
                 z3.And(z3.Not(use_x), z3.Not(has_h)))]

    def apply(self, V, a):
        use_x, xpath, has_h, hpath = self.table(a['environ'])
        d = V.ctx.fork([use_x, z3.And(z3.Not(use_x), has_h),
                        z3.And(z3.Not(use_x), z3.Not(has_h))], 'home-trash')
        if d == 0:
            return [mk(xpath)]
        if d == 1:
            return [mk(hpath)]
        return []


# ---------------------------------------------------------------------------
def secure_top(fs, parent, sigma=None):
    """the spec's check on $topdir/.Trash (C08)"""
    return z3.And(fs.lkind(parent, sigma) != ABSENT,
                  fs.kind(parent, sigma) == DIR,
                  fs.lkind(parent, sigma) != SYMLINK,
                  sticky_f(sigma if sigma is not None else fs.sigma, parent))


class ValidToBeRead(Contract):
    module = 'trashcli.trash_dirs_scanner'
    qualname = 'TopTrashDirRules.valid_to_be_read'
    reader = ('trashcli.empty.main', 'trashcli.empty.empty_cmd',
              'EmptyCmd.run_cmd')

    def setup(self, V):
        cls = V.I.lookup(self.module, 'TopTrashDirRules')
        rd = V.I.call(V.I.lookup(
            'trashcli.empty.top_trash_dir_rules_file_system_reader',
            'RealTopTrashDirRulesReader'), [], {})
        rules = V.I.call(cls, [rd], {})
        return {'self': rules, 'path': arg_str('path')}

    def outcome(self, V, fs, path):
        parent = spec.dirname(V.ctx, path)
        ex = fs.kind(path) != ABSENT
        sd = z3.And(fs.kind(parent) == DIR, sticky_f(fs.sigma, parent))
        ln = fs.lkind(parent) == SYMLINK
        return ex, sd, ln, parent

    def post(self, V, a, out):
        fs = fs_of(V.I)
        path = T(a['path'])
        ex, sd, ln, parent = self.outcome(V, fs, path)
        r = out[1]
        name = r.payload
        want = z3.If(z3.Not(ex), SV('top_trash_dir_does_not_exist'),
                     z3.If(z3.Not(sd), SV('top_trash_dir_invalid_because_not_sticky'),
                           z3.If(ln, SV('top_trash_dir_invalid_because_parent_is_symlink'),
                                 SV('top_trash_dir_valid'))))
        return [('decision-table', SV(name) == want),
                ('valid-implies-secure-parent',
                 z3.Implies(z3.BoolVal(name == 'top_trash_dir_valid'),
                            z3.And(ex, secure_top(fs, parent))))]

    def apply(self, V, a):
        fs = fs_of(V.I)
        path = T(a['path'])
        ex, sd, ln, parent = self.outcome(V, fs, path)
        d = V.ctx.fork([z3.Not(ex), z3.And(ex, z3.Not(sd)),
                        z3.And(ex, sd, ln), z3.And(ex, sd, z3.Not(ln))],
                       'valid_to_be_read')
        names = ['top_trash_dir_does_not_exist',
                 'top_trash_dir_invalid_because_not_sticky',
                 'top_trash_dir_invalid_because_parent_is_symlink',
                 'top_trash_dir_valid']
        return V.I.lookup(self.module, names[d])


class ListMountPoints(Contract):
    """RealVolumes.list_mount_points (psutil): an arbitrary finite sequence.
    ASSUMED."""
    module = 'trashcli.fstab.volumes'
    qualname = 'RealVolumes.list_mount_points'

    def apply(self, V, a):
        return purge.ListVolumes().apply(V, a)


def _event_name(ev):
    return ev[0].payload if isinstance(ev[0], StrSubObj) else str(ev[0])


def scanner_vc(S, prefix='scanner'):
    """TrashDirsScanner.scan_trash_dirs: home trash paired with '/', then per
    listed volume $vol/.Trash/$uid only when it passes the checks (else a
    'skipped' event), and $vol/.Trash-$uid when it is a directory."""
    contracts = [purge.ListVolumes(), HomeTrashDirPath()]

    def on_element(I, env, seq, i, x):
        v, sh = shaped_path(I, T(x), 'vol-shape')
        I.ctx.ghost['cur_listed_volume'] = T(v)
        I.ctx.ghost['yield_mark'] = len(I.ctx.ghost['yielded'])
        I.ctx.ghost['sigma_at_element'] = fs_of(I).sigma
        return v

    def at_end(I, env, seq, i, x):
        ctx = I.ctx
        fs = fs_of(I)
        vol = ctx.ghost['cur_listed_volume']
        uid = ctx.ghost['uid']
        evs = ctx.ghost['yielded'][ctx.ghost['yield_mark']:]
        uidstr = z3str(I.lib.to_str(uid))
        top = spec.join(vol, SV('.Trash'), uidstr, ctx=ctx)
        alt = spec.join(vol, z3.Concat(SV('.Trash-'), uidstr), ctx=ctx)
        parent = spec.join(vol, SV('.Trash'), ctx=ctx)
        sec = secure_top(fs, parent)
        exists_top = fs.kind(top) != ABSENT
        tops = [e for e in evs if _event_name(e) == 'trash_dir_found' and
                ctx.entails(T(e[1].items[0]) == top)]
        alts = [e for e in evs if _event_name(e) == 'trash_dir_found' and
                e not in tops]
        skips = [e for e in evs if _event_name(e).startswith('trash_dir_skipped')]
        ctx.oblige(prefix + '/top-trash-dir-used-iff-secure-and-present',
                   z3.BoolVal(len(tops) == 1) == z3.And(exists_top, sec))
        for e in tops:
            ctx.oblige(prefix + '/top-trash-dir-paired-with-its-volume',
                       T(e[1].items[1]) == vol)
        ctx.oblige(prefix + '/insecure-top-trash-dir-is-reported-skipped',
                   z3.BoolVal(len(skips) == 1) == z3.And(
                       exists_top, z3.Not(sec)))
        for e in skips:
            ctx.oblige(prefix + '/skipped-event-names-the-directory',
                       T(e[1][0]) == top)
        ctx.oblige(prefix + '/alt-trash-dir-used-iff-directory',
                   z3.BoolVal(len(alts) == 1) == (fs.kind(alt) == DIR))
        for e in alts:
            ctx.oblige(prefix + '/alt-trash-dir-is-dot-Trash-uid-of-the-volume',
                       z3.And(T(e[1].items[0]) == alt, T(e[1].items[1]) == vol))
        ctx.oblige(prefix + '/nothing-else-per-volume',
                   z3.BoolVal(len(evs) == len(tops) + len(alts) + len(skips)))

    loops = {SCAN_VOLUMES_LOOP: LoopAnnot(
        on_element=on_element, at_iteration_end=at_end,
        keep={'top_trash_dir_path', 'result', 'alt_top_trash_dir'})}

    def body(V):
        ctx = V.ctx
        c = wire(V, 'trashcli.rm.main', 'trashcli.rm.rm_cmd', 'RmCmd.run')
        cmd = c['self']
        mod = 'trashcli.trash_dirs_scanner'
        scanner = V.I.call(V.I.lookup(mod, 'TrashDirsScanner'), [
            V.I.call(V.I.lookup('trashcli.lib.user_info',
                                'SingleUserInfoProvider'), [], {}),
            cmd.attrs['volumes_listing'],
            V.I.call(V.I.lookup(mod, 'TopTrashDirRules'),
                     [cmd.attrs['file_reader']], {}),
            V.I.call(V.I.lookup('trashcli.lib.dir_checker', 'DirChecker'),
                     [], {})], {})
        uid = arg_int('uid')
        ctx.assume(T(uid) >= 0)
        ctx.ghost['uid'] = uid
        ctx.ghost['yielded'] = []
        ctx.ghost['yield_mark'] = 0
        environ = V.I.lib.environ()
        fv = S.resolve(mod, 'TrashDirsScanner.scan_trash_dirs')
        S.note_function(mod, 'TopTrashDirRules.valid_to_be_read')
        S.note_function('trashcli.lib.user_info', 'SingleUserInfoProvider.get_user_info')
        g = V.I.call_function(fv, [], {'self': scanner, 'environ': environ,
                                       'uid': uid})
        first = True
        try:
            for x in V.I.iterate(g):
                ctx.ghost['yielded'].append(x)
        finally:
            # the home part: everything yielded before the first volume
            pass
        use_x, xpath, has_h, hpath = HomeTrashDirPath.table(environ)
        ctx.cover(prefix + '/cover-end')

    def home_hook(I_, fv, vals):
        pass

    S.install(contracts, loops)
    S.run_paths(prefix, body, active=[c.key for c in contracts])


def scanner_home_vc(S, prefix='scanner-home'):
    """the home part of the scan: with no volumes listed, exactly the home
    trash path(s) of the environment, each paired with '/'"""
    class NoVolumes(purge.ListVolumes):
        def apply(self, V, a):
            return []
    contracts = [NoVolumes(), HomeTrashDirPath()]

    def body(V):
        ctx = V.ctx
        c = wire(V, 'trashcli.rm.main', 'trashcli.rm.rm_cmd', 'RmCmd.run')
        cmd = c['self']
        mod = 'trashcli.trash_dirs_scanner'
        scanner = V.I.call(V.I.lookup(mod, 'TrashDirsScanner'), [
            V.I.call(V.I.lookup('trashcli.lib.user_info',
                                'SingleUserInfoProvider'), [], {}),
            cmd.attrs['volumes_listing'],
            V.I.call(V.I.lookup(mod, 'TopTrashDirRules'),
                     [cmd.attrs['file_reader']], {}),
            V.I.call(V.I.lookup('trashcli.lib.dir_checker', 'DirChecker'),
                     [], {})], {})
        uid = arg_int('uid')
        ctx.assume(T(uid) >= 0)
        environ = V.I.lib.environ()
        fv = S.resolve(mod, 'TrashDirsScanner.scan_trash_dirs')
        g = V.I.call_function(fv, [], {'self': scanner, 'environ': environ,
                                       'uid': uid})
        evs = list(V.I.iterate(g))
        use_x, xpath, has_h, hpath = HomeTrashDirPath.table(environ)
        none = z3.And(z3.Not(use_x), z3.Not(has_h))
        ctx.oblige(prefix + '/home-trash-from-environment',
                   z3.BoolVal(len(evs) == 0) == none)
        ctx.oblige(prefix + '/at-most-one-home-trash', z3.BoolVal(len(evs) <= 1))
        for e in evs:
            ctx.oblige(prefix + '/home-trash-is-found-and-paired-with-root',
                       z3.And(z3.BoolVal(_event_name(e) == 'trash_dir_found'),
                              T(e[1].items[0]) == z3.If(use_x, xpath, hpath),
                              T(e[1].items[1]) == SV('/')))
        ctx.cover(prefix + '/cover-end')

    S.install(contracts)
    S.run_paths(prefix, body, active=[c.key for c in contracts])
    S.install([purge.ListVolumes()])


# ---------------------------------------------------------------------------
def restore_dirs_vc(S, prefix='restore-dirs'):
    """TrashDirectoriesImpl.list_trash_dirs: --trash-dir alone, else home
    (paired with volume_of(home)), and per mount point .Trash/$uid only when
    secure, .Trash-$uid always (a missing one lists nothing)"""
    contracts = [ListMountPoints(), HomeTrashDirPath(), VolumeOf(),
                 ValidToBeRead()]

    def on_element(I, env, seq, i, x):
        v, sh = shaped_path(I, T(x), 'vol-shape')
        I.ctx.ghost['cur_listed_volume'] = T(v)
        I.ctx.ghost['yield_mark'] = len(I.ctx.ghost['yielded'])
        return v

    def at_end(I, env, seq, i, x):
        ctx = I.ctx
        fs = fs_of(I)
        vol = ctx.ghost['cur_listed_volume']
        uid = ctx.ghost['uid']
        evs = ctx.ghost['yielded'][ctx.ghost['yield_mark']:]
        uidstr = z3str(I.lib.to_str(uid))
        top = spec.join(vol, z3.Concat(SV('.Trash/'), uidstr), ctx=ctx)
        alt = spec.join(vol, z3.Concat(SV('.Trash-'), uidstr), ctx=ctx)
        parent = spec.dirname(ctx, top)
        sec = z3.And(fs.kind(top) != ABSENT, secure_top(fs, parent))
        tops = [e for e in evs if ctx.entails(T(e[0]) == top)]
        alts = [e for e in evs if e not in tops]
        ctx.oblige(prefix + '/top-trash-dir-offered-iff-secure-and-present',
                   z3.BoolVal(len(tops) == 1) == sec)
        ctx.oblige(prefix + '/alt-trash-dir-offered',
                   z3.BoolVal(len(alts) == 1))
        for e in alts:
            ctx.oblige(prefix + '/alt-is-dot-Trash-uid-paired-with-the-volume',
                       z3.And(T(e[0]) == alt, T(e[1]) == vol))
        for e in tops:
            ctx.oblige(prefix + '/top-paired-with-the-volume', T(e[1]) == vol)

    loops = {RESTORE_VOLUMES_LOOP: LoopAnnot(
        on_element=on_element, at_iteration_end=at_end,
        keep={'path1', 'volume1'})}

    def body(V):
        ctx = V.ctx
        c = wire(V, 'trashcli.restore.main', 'trashcli.restore.restore_cmd',
                 'RestoreCmd.run')
        tfs = c['self'].attrs['run_restore_action'].attrs['trashed_files']
        tdirs = tfs.attrs['searcher'].attrs['trash_directories']
        # the uid lives on TrashDirectories1 (and, since the F10 repair, also
        # on TrashDirectoriesImpl): read it where every version keeps it
        uid = tdirs.attrs['trash_directories2'].attrs[
            'trash_directories'].attrs['uid']
        ctx.ghost['uid'] = uid
        ctx.ghost['yielded'] = []
        ctx.ghost['yield_mark'] = 0
        fs = fs_of(V.I)
        fv = S.resolve('trashcli.restore.trash_directories',
                       'TrashDirectoriesImpl.list_trash_dirs')
        for q in ('TrashDirectoriesImpl._only_secure',
                  'TrashDirectories2.trash_directories_or_user',
                  'TrashDirectories1.all_trash_directories'):
            S.note_function('trashcli.restore.trash_directories', q)
        cli = None
        if ctx.choose(2, 'trash-dir-from-cli') == 1:
            cli = arg_str('trash_dir_from_cli')
            ctx.assume(T(cli) != SV(''))
        r = V.I.call_function(fv, [], {'self': tdirs, 'trash_dir_from_cli': cli})
        environ = tdirs.attrs['trash_directories2'].attrs[
            'trash_directories'].attrs['environ']
        if cli is not None:
            items = list(V.I.iterate(r))
            ctx.oblige(prefix + '/trash-dir-option-restricts-to-that-directory',
                       z3.BoolVal(len(items) == 1))
            if len(items) == 1:
                ctx.oblige(prefix + '/trash-dir-option-paired-with-its-volume',
                           z3.And(T(items[0][0]) == T(cli),
                                  T(items[0][1]) == nm_f(
                                      fs.sigma, spec.abspath(ctx, T(cli)))))
            return
        n_home = None
        for x in V.I.iterate(r):
            ctx.ghost['yielded'].append(x)
        # reached only when the volume list is exhausted: the home part
        use_x, xpath, has_h, hpath = HomeTrashDirPath.table(environ)
        ctx.cover(prefix + '/cover-end')

    S.install(contracts, loops)
    S.run_paths(prefix, body, active=[c.key for c in contracts])


def restore_home_vc(S, prefix='restore-home'):
    """restore's home trash: path from the environment, paired with
    volume_of(path); C20 asks that this be the base the other commands use
    ('/')."""
    class NoMounts(ListMountPoints):
        def apply(self, V, a):
            return []
    contracts = [NoMounts(), HomeTrashDirPath(), VolumeOf(), ValidToBeRead()]

    def body(V):
        ctx = V.ctx
        c = wire(V, 'trashcli.restore.main', 'trashcli.restore.restore_cmd',
                 'RestoreCmd.run')
        tfs = c['self'].attrs['run_restore_action'].attrs['trashed_files']
        tdirs = tfs.attrs['searcher'].attrs['trash_directories']
        fs = fs_of(V.I)
        fv = S.resolve('trashcli.restore.trash_directories',
                       'TrashDirectoriesImpl.list_trash_dirs')
        r = V.I.call_function(fv, [], {'self': tdirs,
                                       'trash_dir_from_cli': None})
        items = list(V.I.iterate(r))
        environ = tdirs.attrs['trash_directories2'].attrs[
            'trash_directories'].attrs['environ']
        use_x, xpath, has_h, hpath = HomeTrashDirPath.table(environ)
        none = z3.And(z3.Not(use_x), z3.Not(has_h))
        ctx.oblige(prefix + '/home-trash-from-environment',
                   z3.BoolVal(len(items) == 0) == none)
        for it in items:
            home = z3.If(use_x, xpath, hpath)
            vol = nm_f(fs.sigma, spec.abspath(ctx, home))
            ctx.oblige(prefix + '/home-trash-paired-with-its-volume',
                       z3.And(T(it[0]) == home, T(it[1]) == vol))
            # C20: list/empty/rm resolve a relative Path in the home trash
            # against '/': restore must use the same base
            ctx.oblige(prefix + '/home-trash-base-agrees-with-the-scanner',
                       T(it[1]) == SV('/'),
                       info={'terms': {'home_volume': vol}})
        ctx.cover(prefix + '/cover-end')

    S.install(contracts)
    S.run_paths(prefix, body, active=[c.key for c in contracts])
    S.install([ListMountPoints()])
