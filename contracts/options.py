"""Option VCs: the real argument parsers of trash-put / trash-empty /
trash-restore / trash-list are executed on the argparse model of
pyvc/argmodel.py for every argument vector of the canonical shape

    [<= 2 option tokens from the table, each with a symbolic value if it takes
     one]  ['--']  [<= 2 symbolic positionals]

and the record they return is compared with the fold of the table over the
vector.  The tables are the command-line contract the properties talk about
(-f/-i/-v, --trash-dir, --home-fallback, --dry-run, DAYS, --overwrite,
--sort, ...): an option that is dropped, renamed, wired to the wrong field or
given a different default fails a named obligation.  BOUNDED in the number of
tokens (pairs of options cover 'last one wins', counting and appending);
abbreviated options, '--opt=value' and clustered short flags are outside the
model (pyvc/argmodel.py)."""
import z3

from pyvc import spec
from pyvc.values import Sym, PyExc, Obj, TupleObj, mk, z3str, is_sym
from .common import SV, T, arg_str


def _tokens(ctx, table, max_opts=2, max_pos=2, tag=''):
    """(tokens, picked option entries, values, positionals, ddash)"""
    n = ctx.choose(max_opts + 1, tag + 'n-options')
    toks, picked = [], []
    for i in range(n):
        j = ctx.choose(len(table), tag + 'option%d' % i)
        ent = table[j]
        toks.append(ent[0])
        val = None
        if ent[1]:
            val = Sym(z3.String('%soptval%d' % (tag, i)), 'str')
            ctx.assume(z3.Not(z3.PrefixOf(SV('-'), val.t)))
            toks.append(val)
        picked.append((ent, val))
    ddash = ctx.choose(2, tag + 'ddash') == 1
    if ddash:
        toks.append('--')
    m = ctx.choose(max_pos + 1, tag + 'n-positionals')
    pos = []
    for i in range(m):
        p = Sym(z3.String('%spositional%d' % (tag, i)), 'str')
        if not ddash:
            ctx.assume(z3.Not(z3.PrefixOf(SV('-'), p.t)))
        pos.append(p)
        toks.append(p)
    return toks, picked, pos, ddash


def _name(m):
    return m.attrs.get('name') if isinstance(m, Obj) else None


def _fields(r):
    if isinstance(r, TupleObj) and r.cls.nt_fields:
        return dict(zip(r.cls.nt_fields, r.items))
    return dict(r.attrs)


def _same(a, b):
    """z3 Bool: values equal (strings symbolic or concrete, None, ints, bools,
    lists of those)"""
    if a is None or b is None:
        return z3.BoolVal(a is None and b is None)
    if isinstance(a, (list, tuple)) or isinstance(b, (list, tuple)):
        if not (isinstance(a, (list, tuple)) and isinstance(b, (list, tuple))) \
                or len(a) != len(b):
            return z3.BoolVal(False)
        return z3.And(*[_same(x, y) for x, y in zip(a, b)]) if a else z3.BoolVal(True)
    if isinstance(a, bool) or isinstance(b, bool):
        return z3.BoolVal(isinstance(a, bool) and isinstance(b, bool) and a == b)
    if isinstance(a, int) and isinstance(b, int):
        return z3.BoolVal(a == b)
    sa = isinstance(a, str) or (is_sym(a) and a.ty == 'str')
    sb = isinstance(b, str) or (is_sym(b) and b.ty == 'str')
    if sa and sb:
        return z3str(a) == z3str(b)
    if is_sym(a) or is_sym(b):
        if (is_sym(a) and a.ty == 'int') or (is_sym(b) and b.ty == 'int'):
            from pyvc.values import z3int
            try:
                return z3int(a) == z3int(b)
            except Exception:
                return z3.BoolVal(False)
    return z3.BoolVal(a is b)


# ---------------------------------------------------------------------------
# trash-put
# ---------------------------------------------------------------------------
PUT_TABLE = [
    # token, takes a value, effect
    ('-f', False, ('mode', 'mode_force')), ('--force', False, ('mode', 'mode_force')),
    ('-i', False, ('mode', 'mode_interactive')),
    ('--interactive', False, ('mode', 'mode_interactive')),
    ('-d', False, None), ('--directory', False, None), ('-r', False, None),
    ('-R', False, None), ('--recursive', False, None),
    ('-v', False, ('verbose', '+1')), ('--verbose', False, ('verbose', '+1')),
    ('--trash-dir', True, ('trash_dir', 'value')),
    ('--force-volume', True, ('forced_volume', 'value')),
    ('--home-fallback', False, ('home_fallback', True)),
]


def put_options_vc(S, prefix='put-options'):
    def body(V):
        ctx = V.ctx
        I = V.I
        fv = S.resolve('trashcli.put.parser', 'Parser.parse_args')
        S.note_function('trashcli.put.parser', 'make_parser')
        S.note_function('trashcli.put.parser', 'ensure_int')
        parser = I.call(I.lookup('trashcli.put.parser', 'Parser'), [], {})
        toks, picked, pos, ddash = _tokens(ctx, PUT_TABLE)
        argv0 = arg_str('argv0')
        try:
            r = I.call_function(fv, [], {'self': parser, 'argv': [argv0] + toks})
        except PyExc as pe:
            ctx.oblige(prefix + '/nothrow', z3.BoolVal(False), kind='nothrow',
                       info={'exception': pe.value.cls.name})
            return
        ctx.oblige(prefix + '/nothrow', z3.BoolVal(True), kind='nothrow')
        kind = r.cls.name
        if not pos:
            code = _fields(r).get('exit_code') if kind == 'ExitWithCode' else None
            ctx.oblige(prefix + '/no-file-operand-is-a-usage-error-with-non-zero-exit',
                       z3.BoolVal(kind == 'ExitWithCode' and isinstance(code, int)
                                  and code != 0))
            return
        ctx.oblige(prefix + '/operands-give-a-trash-request',
                   z3.BoolVal(kind == 'Trash'))
        if kind != 'Trash':
            return
        f = _fields(r)
        want = {'mode': 'mode_unspecified', 'verbose': 0, 'trash_dir': None,
                'forced_volume': None, 'home_fallback': False}
        for (tok, _tv, eff), val in picked:
            if eff is None:
                continue
            k, v = eff
            if v == '+1':
                want[k] += 1
            elif v == 'value':
                want[k] = val
            else:
                want[k] = v
        ctx.oblige(prefix + '/files-are-the-operands-in-order',
                   _same(list(I.iterate(f['files'])), pos))
        m = f['mode']
        ctx.oblige(prefix + '/mode-is-the-last-of-f-and-i',
                   z3.BoolVal(_name(m) == want['mode']))
        ctx.oblige(prefix + '/verbose-counts-v', _same(f['verbose'], want['verbose']))
        ctx.oblige(prefix + '/trash-dir-is-the-last-trash-dir-value',
                   _same(f['trash_dir'], want['trash_dir']))
        ctx.oblige(prefix + '/forced-volume-only-from-its-option',
                   _same(f['forced_volume'], want['forced_volume']))
        ctx.oblige(prefix + '/home-fallback-only-with-its-flag',
                   _same(f['home_fallback'], want['home_fallback']))
        ctx.oblige(prefix + '/program-name-is-basename-of-argv0',
                   z3str(f['program_name']) == spec.basename(ctx, argv0.t))
        ctx.cover(prefix + '/cover-end')
    S.run_paths(prefix, body)


# ---------------------------------------------------------------------------
# trash-empty
# ---------------------------------------------------------------------------
EMPTY_TABLE = [
    ('-v', False, ('verbose', '+1')), ('--verbose', False, ('verbose', '+1')),
    ('--trash-dir', True, ('user_specified_trash_dirs', 'append')),
    ('--all-users', False, ('all_users', True)),
    ('-i', False, ('interactive', True)), ('--interactive', False, ('interactive', True)),
    ('-f', False, ('interactive', False)),
    ('--dry-run', False, ('dry_run', True)),
    ('--version', False, ('kind', 'version')),
    ('--print-time', False, ('kind', 'print-time')),
]


def empty_options_vc(S, prefix='empty-options'):
    def body(V):
        ctx = V.ctx
        I = V.I
        fv = S.resolve('trashcli.empty.parser', 'Parser.parse')
        S.note_function('trashcli.empty.parser', 'Parser.make_parser')
        parser = I.call(I.lookup('trashcli.empty.parser', 'Parser'), [], {})
        toks, picked, pos, ddash = _tokens(ctx, EMPTY_TABLE, max_pos=1)
        default_inter = ctx.choose(2, 'default-is-interactive') == 1
        uid = Sym(z3.Int('uid'), 'int')
        argv0 = arg_str('argv0')
        environ = I.lib.environ()
        days_ok = None
        try:
            r = I.call_function(fv, [], {
                'self': parser, 'default_is_interactive': default_inter,
                'environ': environ, 'args': toks, 'uid': uid, 'argv0': argv0})
        except PyExc as pe:
            # the only way out is argparse's usage error for a DAYS that is
            # not an integer
            is_exit = pe.value.cls.name == 'SystemExit'
            bad_days = bool(pos) and not ctx.feasible(spec.int_ok_f(pos[0].t)) \
                if pos else False
            ctx.oblige(prefix + '/only-a-non-integer-DAYS-is-a-usage-error',
                       z3.BoolVal(is_exit and pe.value.attrs.get('code') == 2
                                  and bad_days),
                       info={'exception': pe.value.cls.name})
            return
        want = {'verbose': 0, 'user_specified_trash_dirs': [], 'all_users': False,
                'interactive': default_inter, 'dry_run': False, 'kind': 'empty'}
        kinds = []
        for (tok, _tv, eff), val in picked:
            k, v = eff
            if v == '+1':
                want[k] += 1
            elif v == 'append':
                want[k] = want[k] + [val]
            elif k == 'kind':
                kinds.append(v)
            else:
                want[k] = v
        kind = 'version' if 'version' in kinds else \
            'print-time' if 'print-time' in kinds else 'empty'
        got_kind = {'PrintVersionArgs': 'version', 'PrintTimeArgs': 'print-time',
                    'EmptyActionArgs': 'empty'}.get(r.cls.name)
        ctx.oblige(prefix + '/action-is-empty-unless-version-or-print-time',
                   z3.BoolVal(got_kind == kind))
        if got_kind != 'empty' or kind != 'empty':
            return
        f = _fields(r)
        ctx.oblige(prefix + '/dry-run-only-with-its-flag',
                   _same(f['dry_run'], want['dry_run']))
        ctx.oblige(prefix + '/interactive-is-the-default-overridden-by-the-last-of-i-and-f',
                   _same(f['interactive'], want['interactive']))
        ctx.oblige(prefix + '/all-users-only-with-its-flag',
                   _same(f['all_users'], want['all_users']))
        ctx.oblige(prefix + '/trash-dirs-are-the-option-values-in-order',
                   _same(list(I.iterate(f['user_specified_trash_dirs'])),
                         want['user_specified_trash_dirs']))
        ctx.oblige(prefix + '/verbose-counts-v', _same(f['verbose'], want['verbose']))
        if pos:
            d = f['days']
            ctx.oblige(prefix + '/days-is-the-integer-operand',
                       z3.BoolVal(is_sym(d) and d.ty == 'int') if not isinstance(d, int)
                       else z3.BoolVal(False))
            if is_sym(d) and d.ty == 'int':
                ctx.oblige(prefix + '/days-is-the-integer-operand',
                           d.t == spec.int_val_f(pos[0].t))
        else:
            ctx.oblige(prefix + '/no-operand-means-no-age-limit',
                       z3.BoolVal(f['days'] is None))
        ctx.oblige(prefix + '/uid-and-environment-passed-through',
                   z3.BoolVal(f['uid'] is uid and f['environ'] is environ))
        ctx.cover(prefix + '/cover-end')
    S.run_paths(prefix, body)


# ---------------------------------------------------------------------------
# trash-restore
# ---------------------------------------------------------------------------
RESTORE_TABLE = [
    ('--sort', True, ('sort', 'value')),
    ('--trash-dir', True, ('trash_dir', 'value')),
    ('--overwrite', False, ('overwrite', True)),
    ('--version', False, ('kind', 'version')),
]
SORTS = {'date': 'ByDate', 'path': 'ByPath', 'none': 'DoNot'}


def restore_options_vc(S, prefix='restore-options'):
    def body(V):
        ctx = V.ctx
        I = V.I
        fv = S.resolve('trashcli.restore.restore_arg_parser',
                       'RestoreArgParser.parse_restore_args')
        parser = I.call(I.lookup('trashcli.restore.restore_arg_parser',
                                 'RestoreArgParser'), [], {})
        toks, picked, pos, ddash = _tokens(ctx, RESTORE_TABLE, max_pos=1)
        # the current directory as getcwd() reports it: '/' or an absolute,
        # normalised path without trailing slash (never a leading '//')
        if len(picked) == 2:
            # pairs of options are about the option fields; the directory
            # arithmetic is covered with symbolic directories for <= 1 option
            curdir = '/cur/dir'
        elif ctx.choose(2, 'cwd-is-root') == 0:
            curdir = '/'
        else:
            curdir = arg_str('curdir')
            ctx.assume(z3.And(z3.PrefixOf(SV('/'), curdir.t), curdir.t != SV('/'),
                              spec.clean_path(curdir.t)))
            spec.mark_noendslash(ctx, curdir.t)
        argv0 = arg_str('argv0')
        sort_vals = [val for (tok, _t, eff), val in picked if eff == ('sort', 'value')]
        try:
            r = I.call_function(fv, [], {'self': parser,
                                         'sys_argv': [argv0] + toks,
                                         'curdir': curdir})
        except PyExc as pe:
            is_exit = pe.value.cls.name == 'SystemExit'
            bad = False
            for sv in sort_vals:
                if not ctx.feasible(z3.Or(*[sv.t == SV(k) for k in SORTS])):
                    bad = True
            ctx.oblige(prefix + '/only-an-unknown-sort-key-is-a-usage-error',
                       z3.BoolVal(is_exit and pe.value.attrs.get('code') == 2
                                  and bad),
                       info={'exception': pe.value.cls.name})
            return
        want = {'sort': 'date', 'trash_dir': None, 'overwrite': False}
        version = False
        for (tok, _tv, eff), val in picked:
            k, v = eff
            if k == 'kind':
                version = True
            elif v == 'value':
                want[k] = val
            else:
                want[k] = v
        ctx.oblige(prefix + '/version-flag-selects-the-version-action',
                   z3.BoolVal((r.cls.name == 'PrintVersionArgs') == version))
        if version or r.cls.name != 'RunRestoreArgs':
            return
        f = _fields(r)
        ctx.oblige(prefix + '/overwrite-only-with-its-flag',
                   _same(f['overwrite'], want['overwrite']))
        ctx.oblige(prefix + '/trash-dir-is-the-option-value',
                   _same(f['trash_dir'], want['trash_dir']))
        sv = want['sort']
        got = _name(f['sort'])
        if isinstance(sv, str):
            ctx.oblige(prefix + '/sort-key-maps-to-its-mode',
                       z3.BoolVal(got == SORTS[sv]))
        else:
            ctx.oblige(prefix + '/sort-key-maps-to-its-mode',
                       z3.And(*[z3.Implies(sv.t == SV(k), z3.BoolVal(got == m))
                                for k, m in SORTS.items()]))
        # C13: "the requested directory (default: the current one)": the
        # operand is taken relative to the current directory, which getcwd()
        # reports absolute and normalised ('/' for the root, never '//')
        p = pos[0].t if pos else SV('')
        ctx.ghost['normpath_no_shape_fork'] = True
        cd = z3str(curdir)
        wantp = spec.normpath(ctx, spec.join2(cd, p, ctx))
        ctx.oblige(prefix + '/path-is-the-operand-under-the-current-directory-normalised',
                   z3str(f['path']) == wantp)
        if not pos:
            ctx.oblige(prefix + '/the-default-directory-is-the-current-one',
                       z3str(f['path']) == cd)
        ctx.cover(prefix + '/cover-end')
    S.run_paths(prefix, body)


# ---------------------------------------------------------------------------
# trash-list
# ---------------------------------------------------------------------------
LIST_TABLE = [
    ('--trash-dir', True, ('trash_dirs', 'append')),
    ('--size', False, ('attribute_to_print', 'size')),
    ('--files', False, ('show_files', True)),
    ('--all-users', False, ('all_users', True)),
    ('--version', False, ('action', 'PrintVersionArgs')),
    ('--volumes', False, ('action', 'PrintVolumesArgs')),
    ('--trash-dirs', False, ('action', 'ListTrashDirsArgs')),
    ('--debug-volumes', False, ('action', 'DebugVolumesArgs')),
    ('--python', False, ('action', 'PrintPythonExecutableArgs')),
]


def list_options_vc(S, prefix='list-options'):
    def body(V):
        ctx = V.ctx
        I = V.I
        fv = S.resolve('trashcli.list.parser', 'Parser.parse_list_args')
        S.note_function('trashcli.list.parser', 'Parser.__init__')
        argv0 = arg_str('argv0')
        parser = I.call(I.lookup('trashcli.list.parser', 'Parser'), ['trash-list'], {})
        toks, picked, pos, ddash = _tokens(ctx, LIST_TABLE, max_pos=1)
        try:
            r = I.call_function(fv, [], {'self': parser, 'args': toks,
                                         'argv0': argv0})
        except PyExc as pe:
            is_exit = pe.value.cls.name == 'SystemExit'
            ctx.oblige(prefix + '/only-an-operand-is-a-usage-error',
                       z3.BoolVal(is_exit and pe.value.attrs.get('code') == 2
                                  and (bool(pos) or ddash)),
                       info={'exception': pe.value.cls.name})
            return
        ctx.oblige(prefix + '/operands-are-refused', z3.BoolVal(not pos and not ddash))
        want = {'trash_dirs': [], 'attribute_to_print': 'deletion_date',
                'show_files': False, 'all_users': False, 'action': 'ListTrashArgs'}
        for (tok, _tv, eff), val in picked:
            k, v = eff
            if v == 'append':
                want[k] = want[k] + [val]
            else:
                want[k] = v
        ctx.oblige(prefix + '/action-is-listing-unless-the-last-action-flag-says-otherwise',
                   z3.BoolVal(r.cls.name == want['action']))
        if r.cls.name != 'ListTrashArgs' or want['action'] != 'ListTrashArgs':
            return
        f = _fields(r)
        ctx.oblige(prefix + '/trash-dirs-are-the-option-values-in-order',
                   _same(list(I.iterate(f['trash_dirs'])), want['trash_dirs']))
        ctx.oblige(prefix + '/attribute-is-the-date-unless-size',
                   _same(f['attribute_to_print'], want['attribute_to_print']))
        ctx.oblige(prefix + '/files-column-only-with-its-flag',
                   _same(f['show_files'], want['show_files']))
        ctx.oblige(prefix + '/all-users-only-with-its-flag',
                   _same(f['all_users'], want['all_users']))
        ctx.cover(prefix + '/cover-end')
    S.run_paths(prefix, body)
