"""Contracts around deletion dates: older_than, parse_deletion_date,
maybe_parse_deletion_date, Clock.get_now_value, ok_to_delete (C10, C19, C20)."""
import z3

from pyvc import spec
from pyvc.vc import Contract, LoopAnnot
from pyvc.values import Sym, mk, z3bool, z3int, PyExc, Obj, BoundMethod
from pyvc.libmodels import DateV, DATE_MAX_US, DAY_US
from pyvc.replay import pure_replayer
from .common import (SV, arg_str, arg_int, arg_date, T, fwp, unfold_fwp,
                     line, nlines, returned, raised)

DD = 'DeletionDate='
DD_FMT = 'DeletionDate=%Y-%m-%dT%H:%M:%S'
PARSE_LOOP = ('trashcli.parse_trashinfo.parse_trashinfo',
              'ParseTrashInfo.parse_trashinfo', 0)


# --------------------------------------------------------------------------
class OlderThan(Contract):
    module = 'trashcli.empty.older_than'
    qualname = 'older_than'
    raises = ('OverflowError',)
    strict = True

    def setup(self, V):
        return {'days_ago': arg_int('days_ago'),
                'now_value': arg_date(V, 'now'),
                'deletion_date': arg_date(V, 'date')}

    def pre(self, V, a):
        return [z3int(a['days_ago']) >= 0]

    def limit(self, a):
        return a['now_value'].us - z3int(a['days_ago']) * DAY_US

    def post(self, V, a, out):
        lim = self.limit(a)
        if out[0] == 'raise':
            # OverflowError only when the limit is not a representable date
            return [('overflow-only-when-unrepresentable',
                     z3.Or(lim < 0, z3int(a['days_ago']) > 999999999))]
        r = z3bool(out[1])
        d = a['deletion_date'].us
        if self.strict:
            return [('strictly-earlier', r == (d < lim))]
        return [('canary-not-strict', r == (d <= lim))]

    def apply(self, V, a):
        lim = self.limit(a)
        ok = z3.And(lim >= 0, z3int(a['days_ago']) <= 999999999)
        if not V.ctx.branch(ok, 'older_than-representable'):
            raise PyExc(V.I.make_exc('OverflowError', 'date value out of range'))
        return mk(a['deletion_date'].us < lim)


class OlderThanCanary(OlderThan):
    strict = False


def older_than_replayer():
    def violated(args, out):
        import datetime
        if 'result' not in out:
            return False
        base = datetime.datetime(1, 1, 1)
        now = base + datetime.timedelta(microseconds=args['now'])
        date = base + datetime.timedelta(microseconds=args['date'])
        want = date < now - datetime.timedelta(days=args['days_ago'])
        return out['result'] != want
    return pure_replayer(
        {'days_ago': z3.Int('arg.days_ago'), 'now': z3.Int('arg.now'),
         'date': z3.Int('arg.date')},
        'trashcli.empty.older_than', 'older_than', violated,
        build_args=lambda c: [c['days_ago'], {'__datetime__': c['now']},
                              {'__datetime__': c['date']}])


# --------------------------------------------------------------------------
def spec_deletion_date(ctx, contents_t):
    """(has_date: Bool, us: Int): the value of the first line starting with
    'DeletionDate=' if it parses"""
    c = contents_t
    j = fwp(c, 0, DD)
    ok = z3.And(j >= 0, spec.strptime_ok_f(SV(DD_FMT), line(c, j)))
    us = spec.strptime_val_f(SV(DD_FMT), line(c, j))
    return ok, us, j, c


def _basket_of(env):
    cb = env.vars['self'].attrs['found_deletion_date']
    if isinstance(cb, BoundMethod):
        return cb.self_obj
    # maybe_parse_deletion_date: lambda closing over `result`
    return cb.closure.vars['result']


def parse_loop_annot(unknown_marker=None):
    """invariant of the line loop of ParseTrashInfo.parse_trashinfo when the
    date callbacks store into a Basket.  unknown_marker: the value stored on
    an invalid date (None for parse_deletion_date: nothing is stored)."""

    def havoc(I, env):
        b = _basket_of(env)
        init = I.ctx.ghost['basket_initial']
        d = I.ctx.choose(2, 'basket-havoc')
        if d == 0:
            b.attrs['collected'] = init
        else:
            us = I.ctx.fresh_int('collected')
            I.ctx.assume(z3.And(us >= 0, us <= DATE_MAX_US))
            b.attrs['collected'] = DateV(us)

    def inv(I, env, seq, i):
        ctx = I.ctx
        found = env.vars['found_deletion_date']
        found_t = T(found)
        c = seq.base[1]
        unfold_fwp(ctx, c, i, DD)
        J = fwp(c, 0, DD)
        b = _basket_of(env)
        cur = b.attrs['collected']
        init = ctx.ghost['basket_initial']
        ok = spec.strptime_ok_f(SV(DD_FMT), line(c, J))
        us = spec.strptime_val_f(SV(DD_FMT), line(c, J))
        if isinstance(cur, DateV):
            cur_is_date = z3.BoolVal(True)
            cur_us = cur.us
        else:
            cur_is_date = z3.BoolVal(False)
            cur_us = z3.IntVal(0)
            if cur is not init and cur != init:
                # some other value: invariant cannot hold
                return [('basket-shape', z3.BoolVal(False))]
        return [
            ('not-found-means-no-earlier-line',
             z3.Implies(z3.Not(found_t),
                        z3.And(fwp(c, i, DD) == J,
                               z3.Not(cur_is_date)))),
            ('found-means-first-line-seen',
             z3.Implies(found_t, z3.And(J >= 0, J < i,
                                        cur_is_date == ok,
                                        z3.Implies(ok, cur_us == us)))),
        ]

    return LoopAnnot(invariant=inv, havoc_ghost=havoc,
                     mutates={'attribute collected of a Basket'},
                     keep={'date', 'path', 'line'},
                     types={'found_deletion_date': 'bool'})


class ParseDeletionDate(Contract):
    """parse_deletion_date(contents): the date on the first 'DeletionDate='
    line if it parses, else None.  Total (no exception)."""
    module = 'trashcli.parse_trashinfo.parse_deletion_date'
    qualname = 'parse_deletion_date'
    raises = ()
    initial = None

    def setup(self, V):
        V.ctx.ghost['basket_initial'] = self.initial
        return {'contents': arg_str('contents')}

    def post(self, V, a, out):
        ok, us, j, lines = spec_deletion_date(V.ctx, T(a['contents']))
        r = out[1]
        if isinstance(r, DateV):
            return [('date-is-first-line', z3.And(ok, r.us == us))]
        if r is None or r == self.initial:
            return [('none-iff-missing-or-unparsable', z3.Not(ok))]
        return [('result-shape', z3.BoolVal(False))]

    def apply(self, V, a):
        ok, us, j, lines = spec_deletion_date(V.ctx, T(a['contents']))
        if V.ctx.branch(ok, 'has-deletion-date'):
            V.ctx.assume(z3.And(us >= 0, us <= DATE_MAX_US))
            return DateV(us)
        return self.initial


class MaybeParseDeletionDate(ParseDeletionDate):
    module = 'trashcli.parse_trashinfo.maybe_parse_deletion_date'
    qualname = 'maybe_parse_deletion_date'
    initial = '????-??-?? ??:??:??'


# --------------------------------------------------------------------------
TRASH_DATE_FMT = '%Y-%m-%dT%H:%M:%S'


class ClockNow(Contract):
    """Clock.get_now_value(environ): TRASH_DATE when set and parsable, else
    the real clock."""
    module = 'trashcli.empty.clock'
    qualname = 'Clock.get_now_value'
    raises = ()

    def setup(self, V):
        from pyvc.values import SymDict, Builtin
        env = V.I.lib.environ()
        real_us = z3.Int('ghost.real_now')
        V.ctx.assume(z3.And(real_us >= 0, real_us <= DATE_MAX_US))
        real_now = Builtin('real_now', lambda I, a, k: DateV(real_us))
        errors = V.I.call(V.I.lookup('trashcli.empty.errors', 'Errors'),
                          ['trash-empty', V.I.lib.registry['sys.stderr']], {})
        clock = V.I.call(V.I.lookup(self.module, 'Clock'),
                         [real_now, errors], {})
        V.ctx.ghost['real_now_us'] = real_us
        return {'self': clock, 'environ': env}

    def spec(self, V, environ, real_us):
        p, v = environ.entry('TRASH_DATE')
        ok = z3.And(p, spec.strptime_ok_f(SV(TRASH_DATE_FMT), v))
        return z3.If(ok, spec.strptime_val_f(SV(TRASH_DATE_FMT), v), real_us)

    def post(self, V, a, out):
        r = out[1]
        if not isinstance(r, DateV):
            return [('result-shape', z3.BoolVal(False))]
        return [('now-from-TRASH_DATE-or-clock',
                 r.us == self.spec(V, a['environ'], V.ctx.ghost['real_now_us']))]

    def apply(self, V, a):
        real_us = V.ctx.ghost.get('real_now_us')
        if real_us is None:
            real_us = z3.Int('ghost.real_now')
            V.ctx.assume(z3.And(real_us >= 0, real_us <= DATE_MAX_US))
            V.ctx.ghost['real_now_us'] = real_us
        us = V.ctx.fresh_int('now')
        V.ctx.assume(us == self.spec(V, a['environ'], real_us))
        V.ctx.assume(z3.And(us >= 0, us <= DATE_MAX_US))
        return DateV(us)
