"""C19: a malformed trash entry never prevents the well-formed ones from
being handled."""
import os
from . import purge, restore, readers, dates, scenarios, options

PROPERTY = 'C19'
LEVEL_NOTE = ('for each reader the per-entry body is proved exception-free for '
              'EVERY content and read outcome (OSError, UnicodeDecodeError, no '
              'Path, no/invalid date, non-.trashinfo names) and its output '
              'depends on that entry only (loop cut: arbitrary entry in an '
              'arbitrary listing); sorting is total for every mix of dated and '
              'undated entries')
EXPECTED = [
    'list-action/every-message-is-printed-exactly-once',
    'list-options/trash-dirs-are-the-option-values-in-order',
    'list-options/attribute-is-the-date-unless-size',
    'list-options/action-is-listing-unless-the-last-action-flag-says-otherwise',
    'restore-reader/offered-iff-well-formed',
    'restore-reader/malformed-entry-gets-a-diagnostic-about-itself',
    'list-reader/one-line-iff-well-formed',
    'list-reader/malformed-entry-gets-a-diagnostic-about-itself',
    'list-reader/at-most-one-message-per-entry',
    'list-reader/size-line-ends-with-space-absolute-path',
    'list-reader/files-line-is-date-path-arrow-payload',
    'rm/removed-iff-original-name-matches',
    'trashcli.empty.delete_according_date.DeleteAccordingDate.ok_to_delete/post/purge-iff-strictly-older',
    'empty/purged-iff-old-enough',
    'sort/result-is-a-list-permutation',
]


def build(S, tier, seed):
    purge.leaf_vcs(S)
    readers.restore_reader_vc(S)
    readers.list_reader_vc(S)
    purge.rm_vc(S)
    purge.empty_vc(S, dry_run=False)
    restore.sort_vc(S)
    options.list_options_vc(S)
    readers.list_action_vc(S)


MALFORMED = [
    ('empty', b''),
    ('nopath', b'[Trash Info]\nDeletionDate=2000-01-01T00:00:00\n'),
    ('nodate', b'[Trash Info]\nPath=/orig/nodate\n'),
    ('baddate', b'[Trash Info]\nPath=/orig/baddate\nDeletionDate=xx\n'),
    ('binary', b'\x00\x01\xfe\xff\n\xff'),
    ('nonutf8', b'[Trash Info]\nPath=/orig/n\xff\nDeletionDate=2000-01-01T00:00:00\n'),
    ('truncated', b'[Trash Info]\nPa'),
    ('cutdate1', b'[Trash Info]\nPath=/orig/c1\nDeletionDate=2020'),
    ('cutdate2', b'[Trash Info]\nPath=/orig/c2\nDeletionDate=2020-0'),
    ('cutdate3', b'[Trash Info]\nPath=/orig/c3\nDeletionDate=2020-01-01T10:'),
    ('latin1path', b'[Trash Info]\nPath=/orig/caf\xe9\nDeletionDate=2000-01-01T00:00:00\n'),
    ('twodates', b'[Trash Info]\nPath=/orig/td\nDeletionDate=zz\nDeletionDate=2000-01-01T00:00:00\n'),
    ('isooffset', b'[Trash Info]\nPath=/orig/iso1\nDeletionDate=2000-01-01T00:00:00+02:00\n'),
    ('isoz', b'[Trash Info]\nPath=/orig/iso2\nDeletionDate=2000-01-01T00:00:00Z\n'),
    ('isooffset2', b'[Trash Info]\nPath=/orig/iso3\nDeletionDate=2000-01-01T00:00:00+0100\n'),
]


def malformed_battery(repo):
    """every reader on a trash with 2 good entries plus each malformed
    neighbour: the good ones are handled as if the neighbours were absent"""
    from pyvc.scenario import Sandbox
    problems = []

    def build(sb, with_bad):
        td = os.path.join(sb.home, '.local', 'share', 'Trash')
        work = sb.path('work')
        os.makedirs(work, exist_ok=True)
        sb.add_entry(td, 'good1', path=os.path.join(work, 'good1'),
                     date='2000-01-01T00:00:00')
        sb.add_entry(td, 'good2', path=os.path.join(work, 'good2'),
                     date='2001-01-01T00:00:00')
        if with_bad:
            for name, raw in MALFORMED:
                sb.add_entry(td, name, raw_info=raw)
            open(os.path.join(td, 'info', 'stray.txt'), 'w').write('x')
            open(os.path.join(td, 'files', 'orphan'), 'w').write('x')
            open(os.path.join(td, 'info', 'nopayload.trashinfo'), 'w').write(
                '[Trash Info]\nPath=/orig/nopayload\nDeletionDate=2000-01-01T00:00:00\n')
        return td, work
    env = {'TRASH_DATE': '2020-01-01T00:00:00'}
    for tool, args, stdin in (
            ('trash-list', [], ''),
            ('trash-list', ['--size'], ''),
            ('trash-list', ['--files'], ''),
            ('trash-rm', ['good1'], ''),
            ('trash-empty', ['-f', '5000'], ''),
            ('trash-restore', ['--sort', 'date'], '0\n'),
            ('trash-restore', ['--sort', 'path'], '0\n'),
            ('trash-restore', ['--sort', 'none'], '0\n')):
        res = {}
        for with_bad in (False, True):
            with Sandbox(repo) as sb:
                td, work = build(sb, with_bad)
                e = dict(env, TRASH_VOLUMES=sb.path('vol'))
                a = list(args)
                if tool == 'trash-restore':
                    a = a + [work]
                run = sb.run(tool, a, env=e, stdin=stdin, cwd=work)
                snap = sb.snapshot()
                good = dict((k.replace(sb.root, ''),
                             v if '/info/' not in '/' + k else v[0])
                            for k, v in snap.items() if 'good' in k)
                lines = sorted(l.replace(sb.root, '') for l in run['stdout'].split('\n')
                               if 'good' in l)
                res[with_bad] = (good, lines, run)
        if 'Traceback' in res[True][2]['stderr']:
            problems.append('%s %s: traceback with malformed neighbours: %s' % (
                tool, args, res[True][2]['stderr'][-300:]))
        if res[True][0] != res[False][0]:
            problems.append('%s %s: well-formed entries handled differently: '
                            '%r vs %r' % (tool, args, sorted(res[True][0]),
                                          sorted(res[False][0])))
        if tool == 'trash-list' and res[True][1] != res[False][1]:
            problems.append('%s: listing of good entries differs: %r vs %r' % (
                tool, res[True][1], res[False][1]))
    return {'confirmed': bool(problems), 'problems': problems[:10]}


def _battery(S, r, o):
    return malformed_battery(S.interp.repo)


REPLAYERS = {'': _battery}
KF_CLASSES = {}
