"""C14: no purge without consent: --dry-run and a negative answer change
nothing."""
import z3
from . import purge, scenarios, dates

PROPERTY = 'C14'
LEVEL_NOTE = ('Emptier.do_empty under dry_run: zero mutating events on every '
              'path (frame flag on the fs model) and one "would remove p" line '
              'per path the same generator yields; parse_reply against '
              '"begins with y or Y" (str.lower fact enumerated over all code '
              'points); Guard/User/EmptyAction.run_action: the emptier is '
              'reached only after such a reply, never on EOF/interrupt')
EXPECTED = [
    'empty-dry/dry-run-removes-nothing',
    'empty-dry/purged-iff-old-enough',
    'empty-dry/entry-removed-whole-payload-then-info',
    'empty/purged-iff-old-enough',
    'trashcli.empty.parse_reply.parse_reply/post/consent-iff-reply-begins-with-y',
    'lemma/str.lower-y/all-code-points',
    'trashcli.empty.is_input_interactive.is_input_interactive/post/interactive-iff-stdin-is-a-terminal',
    'consent/purge-only-after-a-y-reply',
    'consent/no-purge-on-end-of-input',
    'consent/dry-run-flag-reaches-the-emptier',
]


def build(S, tier, seed):
    n, bad = purge.enumerate_lower_y()
    S.enumerations = [{'what': "c.lower()=='y' iff c in 'yY' for every code "
                               "point c and for ''", 'cases': n,
                       'exhaustive': True, 'counterexamples': bad[:5]}]
    S.lemma('lemma/str.lower-y/all-code-points',
            lambda V: z3.BoolVal(not bad))
    purge.leaf_vcs(S)
    purge.consent_vc(S)
    purge.empty_vc(S, dry_run=True, prefix='empty-dry')
    purge.empty_vc(S, dry_run=False)


def _battery(S, r, o):
    return scenarios.dry_run_battery(S.interp.repo)


REPLAYERS = {'': _battery}
KF_CLASSES = {}


def finalize_args(S, tier, seed):
    return {'bounded': [], 'extra_assumptions': [
        'argparse wiring of trash-empty (-i/-f/--dry-run/DAYS type=int, '
        'default interactive = isatty(0)) is assumed',
        'C14 "prints exactly the paths the real run removes": both modes '
        'consume the same generator; that removing already-yielded paths does '
        'not change later yields (one os.listdir snapshot per directory) is '
        'argued in DESIGN.md, not mechanised']}
