"""C14: no purge without consent: --dry-run and a negative answer change
nothing."""
import z3
from . import purge, scenarios, dates, options

PROPERTY = 'C14'
LEVEL_NOTE = ('Emptier.do_empty under dry_run: zero mutating events on every '
              'path (frame flag on the fs model) and one "would remove p" line '
              'per path the same generator yields; parse_reply against '
              '"begins with y or Y" (str.lower fact enumerated over all code '
              'points); Guard/User/EmptyAction.run_action: the emptier is '
              'reached only after such a reply, never on EOF/interrupt')
EXPECTED = [
    'empty-options/dry-run-only-with-its-flag',
    'empty-options/interactive-is-the-default-overridden-by-the-last-of-i-and-f',
    'empty-options/days-is-the-integer-operand',
    'empty-options/trash-dirs-are-the-option-values-in-order',
    'empty-dry/dry-run-removes-nothing',
    'empty-dry/purged-iff-old-enough',
    'empty-dry/entry-removed-whole-payload-then-info',
    'empty/purged-iff-old-enough',
    'trashcli.empty.parse_reply.parse_reply/post/consent-iff-reply-begins-with-y',
    'lemma/str.lower-y/all-code-points',
    'trashcli.empty.is_input_interactive.is_input_interactive/post/interactive-iff-stdin-is-a-terminal',
    'consent/purge-only-after-a-y-reply',
    'consent/no-purge-on-end-of-input',
    'consent/dry-run-flag-reaches-the-emptier',
]


def build(S, tier, seed):
    n, bad = purge.enumerate_lower_y()
    S.enumerations = [{'what': "c.lower()=='y' iff c in 'yY' for every code "
                               "point c and for ''", 'cases': n,
                       'exhaustive': True, 'counterexamples': bad[:5]}]
    S.lemma('lemma/str.lower-y/all-code-points',
            lambda V: z3.BoolVal(not bad))
    purge.leaf_vcs(S)
    purge.consent_vc(S)
    purge.empty_vc(S, dry_run=True, prefix='empty-dry')
    purge.empty_vc(S, dry_run=False)
    options.empty_options_vc(S)


def _battery(S, r, o):
    return scenarios.dry_run_battery(S.interp.repo)


REPLAYERS = {'': _battery}
KF_CLASSES = {}


def finalize_args(S, tier, seed):
    return {'bounded': [], 'extra_assumptions': [
        'argparse is modelled (pyvc/argmodel.py) for canonical argument vectors '
        '(options.. [--] operand); the option VC empty-options is bounded to <= 2 '
        'option tokens; the default of --interactive comes from is_input_interactive (own contract)',
        'C14 "prints exactly the paths the real run removes": both modes '
        'consume the same generator; that removing already-yielded paths does '
        'not change later yields (one os.listdir snapshot per directory) is '
        'argued in DESIGN.md, not mechanised']}
