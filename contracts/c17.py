"""C17: under file-system errors trash-put terminates, falls back, and
reports honestly."""
from . import put, trashdirs, purge, scenarios

PROPERTY = 'C17'

def _base(S):
    S.install([trashdirs.VolumeOf(), trashdirs.HomeTrashDirPath(), put.MkdirP(),
               put.ForFile(), put.PutMove(), put.PutRemoveFile()],
              loops={trashdirs.VOLUME_OF_LOOP: trashdirs.volume_of_loop_annot()})
    return [trashdirs.VolumeOf().key, trashdirs.HomeTrashDirPath().key]

LEVEL_NOTE = ('every fs primitive on every path of the put attempt forks into '
              'success and failure with a symbolic errno, so all fault '
              'combinations are in the VC; the final monitor state satisfies '
              'C01 on each; the retry loop has a variant (bounded attempts); '
              'every Left leads to the next candidate')
EXPECTED = [
    'trashcli.put.janitor_tools.info_file_persister.InfoFilePersister.try_persist/loop0/variant',
    'trashcli.put.janitor_tools.info_file_persister.InfoFilePersister.try_persist/loop0/inv-pres/no-info-created-by-earlier-attempts',
    'trashcli.fs.RealAtomicWrite.atomic_write/post/failure-leaves-no-file-behind',
    'trashcli.fs.RealAtomicWrite.atomic_write/post/descriptor-closed-on-failure',
    'trashcli.put.dir_maker.DirMaker.mkdir_p/post/error-only-if-still-not-a-directory',
    'trashcli.put.janitor_tools.put_trash_dir.PutTrashDir.try_trash/nothrow',
    'trashcli.put.janitor_tools.info_creator.TrashInfoCreator.make_trashinfo_data/nothrow',
    'put/attempt/failure-leaves-the-source-untouched',
    'put/attempt/failure-leaves-no-reservation-behind',
    'put/attempt/success-means-trashed',
    'put/file/next-candidate-only-after-a-failed-attempt',
    'put/file/failure-is-reported-naming-the-argument',
]


def build(S, tier, seed):
    act = put.leaf_vcs(S)
    put.trash_file_in_vc(S)
    put.trash_file_vc(S)


def _battery(S, r, o):
    a = scenarios.put_faults_battery(S.interp.repo)
    c = scenarios.put_volumes_battery(S.interp.repo)
    d = scenarios.put_xdev_battery(S.interp.repo, 'move')
    return {'confirmed': a['confirmed'] or c['confirmed'] or d['confirmed'],
            'problems': (a['problems'] + c['problems'] + d.get('problems', []))[:12],
            'faults': a, 'volumes': c, 'cross_device': d}


REPLAYERS = {'': _battery}


def kf_cross_device(terms):
    """witness class of KF-put-cross-device: the failed attempt went through
    the copy+delete fallback of a cross-device (EXDEV) rename"""
    return terms['rename_errno'] == 18


KF_CLASSES = {'rename-failed-with-EXDEV': kf_cross_device}


def finalize_args(S, tier, seed):
    return {'extra_assumptions': [
        'errno values are symbolic integers; which errnos a given primitive can '
        'return is not restricted (more behaviours, never fewer)',
        'the cleanup unlink of a just-created empty .trashinfo does not itself fail']}
