"""C02: put then restore returns the exact entry to its exact original
path."""
import os
import z3
from pyvc import spec
from . import put, trashdirs, purge, dates, restore, readers, scenarios, c03, options
from .common import SV

PROPERTY = 'C02'
LEVEL_NOTE = ('inverse pair over contracts: the writer records location L with '
              'join(V, L) = realpath(parent)/basename (for_file / '
              'make_trashinfo_data posts) in the info whose payload path is '
              'path_of_backup_copy(info) (put monitor); the reader offers '
              'join(V, unquote(first Path line)) with the same payload path '
              '(restore-reader VC), V paired identically for volume trash dirs '
              'and irrelevant for the absolute home locations (restore-dirs VC, '
              'lemma); unquote(quote(L)) = L (C03 lemmas); a restore is exactly '
              'mkdirs(parent), move(payload -> location), remove(info) '
              '(restorer VC); every --sort mode yields a list permutation; the '
              'entry printed at index i is the one restored for reply i '
              '(pipeline VC)')
EXPECTED = [
    'restore-options/trash-dir-is-the-option-value',
    'restore-options/path-is-the-operand-under-the-current-directory-normalised',
    'put-options/trash-dir-is-the-last-trash-dir-value',
    'trashcli.put.original_location.OriginalLocation.for_file/post/relative-location-rejoins-to-the-absolute-one',
    'trashcli.put.original_location.OriginalLocation.for_file/post/absolute-location-is-realpath-of-parent-slash-basename',
    'trashcli.put.janitor_tools.info_creator.TrashInfoCreator.make_trashinfo_data/post/info-is-named-after-the-entry',
    'put/monitor/move-destination-is-the-payload-of-the-info',
    'restore-reader/location-is-volume-joined-with-first-Path',
    'restore-reader/info-and-payload-of-this-entry',
    'restore-dirs/top-paired-with-the-volume',
    'restore-dirs/alt-is-dot-Trash-uid-paired-with-the-volume',
    'restore/move-source-is-the-payload',
    'restore/move-destination-is-the-original-location',
    'restore/mkdirs-creates-the-parent-of-the-destination',
    'restore/only-the-info-file-is-removed',
    'sort/result-is-a-list-permutation',
    'pipeline/restored-are-exactly-the-denoted-entries-in-order',
    'roundtrip/parse_path-of-written-text-is-unquote-of-quote',
    'lemma/percent-encoding/byte',
    'lemma/C02/relative-location-comes-back',
    'lemma/C02/absolute-location-ignores-the-reader-volume',
    'lemma/C02/entry-is-in-scope-of-its-directory-and-ancestors',
]


def _lemmas(S):
    V_, L, A, V2 = (z3.String('lemma.V'), z3.String('lemma.L'),
                    z3.String('lemma.A'), z3.String('lemma.V2'))

    def rel(V):
        # hypotheses = posts of for_file (relative) and the C03 round trip
        V.ctx.assume(z3.And(spec.join2(V_, L) == A,
                            spec.unquote_f(spec.quote_f(L, SV('/'))) == L))
        return spec.join2(V_, spec.unquote_f(spec.quote_f(L, SV('/')))) == A
    S.lemma('lemma/C02/relative-location-comes-back', rel)

    def absl(V):
        V.ctx.assume(z3.And(z3.PrefixOf(SV('/'), A),
                            spec.unquote_f(spec.quote_f(A, SV('/'))) == A))
        return spec.join2(V2, spec.unquote_f(spec.quote_f(A, SV('/')))) == A
    S.lemma('lemma/C02/absolute-location-ignores-the-reader-volume', absl)

    def scope(V):
        d, rest = z3.String('lemma.dir'), z3.String('lemma.rest')
        V.ctx.assume(z3.Or(A == d, A == z3.Concat(d, SV('/'), rest), d == SV('/')))
        return restore.ScopeMatch.spec(A, d)
    S.lemma('lemma/C02/entry-is-in-scope-of-its-directory-and-ancestors', scope)


def build(S, tier, seed):
    S.install([trashdirs.VolumeOf(), trashdirs.HomeTrashDirPath(), put.MkdirP(),
               put.ForFile(), put.PutMove(), put.PutRemoveFile()],
              loops={trashdirs.VOLUME_OF_LOOP: trashdirs.volume_of_loop_annot(),
                     dates.PARSE_LOOP: dates.parse_loop_annot(),
                     purge.PARSE_PATH_LOOP: purge.parse_path_loop_annot()})
    act = [trashdirs.VolumeOf().key, trashdirs.HomeTrashDirPath().key]
    c03.build(S, tier, seed, with_readers=False)            # writer text, readers, byte lemmas
    put.leaf_vcs(S)
    purge.leaf_vcs(S)
    put.trash_file_in_vc(S, conservation=False)
    readers.restore_reader_vc(S)
    trashdirs.restore_dirs_vc(S)
    restore.restore_one_vc(S)
    restore.sort_vc(S)
    S.verify(restore.ScopeMatch())
    restore.pipeline_vc(S)
    options.restore_options_vc(S)
    options.put_options_vc(S)
    _lemmas(S)


def roundtrip_battery(repo, seed=0):
    """native: real trash-put then real trash-restore for names x kinds x
    sort modes; the restored subtree equals the original (kind, mode, content,
    link target, mtime) and the trash loses exactly that entry"""
    from pyvc.scenario import Sandbox
    problems = []
    names = ['plain', 'sp ace', 'per%cent', 'plus+plus', 'new\nline', '-dash',
             'café', '[b]=?#', 'trailing.']
    kinds = ['file', 'empty', 'tree', 'link-file', 'link-dir', 'dangling']
    i = 0
    for name in names:
        for kind in kinds:
            i += 1
            sort = ['date', 'path', 'none'][i % 3]
            with Sandbox(repo) as sb:
                work = sb.path('work', 'deep', 'er')
                os.makedirs(work)
                p = os.path.join(work, name)
                if kind == 'file':
                    open(p, 'w').write('content')
                    os.chmod(p, 0o640)
                elif kind == 'empty':
                    open(p, 'w').close()
                elif kind == 'tree':
                    os.makedirs(os.path.join(p, 'a', 'b'))
                    open(os.path.join(p, 'a', 'f'), 'w').write('f')
                    os.symlink('../f', os.path.join(p, 'a', 'b', 'l'))
                    os.chmod(os.path.join(p, 'a'), 0o750)
                elif kind == 'link-file':
                    open(os.path.join(work, 'target'), 'w').write('t')
                    os.symlink('target', p)
                elif kind == 'link-dir':
                    os.makedirs(os.path.join(work, 'tdir'))
                    os.symlink('tdir', p)
                else:
                    os.symlink('/nonexistent/q', p)
                os.utime(p, (1000000000, 1000000000), follow_symlinks=False)
                # a second, unrelated entry in the trash
                open(os.path.join(work, 'other'), 'w').write('o')
                td = sb.path('T')

                def snap_entry():
                    s = sb.snapshot(work)
                    out = {}
                    for k, v in s.items():
                        if k == name or k.startswith(name + '/'):
                            st = os.lstat(os.path.join(work, k))
                            out[k] = (v, int(st.st_mtime))
                    return out
                before = snap_entry()
                r1 = sb.run('trash-put', ['--trash-dir', td, '--', name, 'other'], cwd=work)
                if r1['exit'] != 0:
                    problems.append('%r/%s: put failed %s' % (name, kind, r1['stderr'][-200:]))
                    continue
                shutil_gone = not os.path.lexists(p)
                # remove the parent too: restore must recreate it
                import shutil
                shutil.rmtree(sb.path('work', 'deep'))
                os.makedirs(sb.path('work'), exist_ok=True)
                lst = sb.run('trash-restore', ['--trash-dir', td, '--sort', sort,
                                               sb.path('work')], stdin='\n', cwd=sb.path('work'))
                lines = [l for l in lst['stdout'].split('\n') if l.strip()[:1].isdigit()]
                idx = None
                for l in lines:
                    first = l.strip().split(' ', 1)
                    if l.rstrip('\n').endswith('/' + name.split('\n')[-1]) and \
                            '/other' not in l:
                        idx = first[0]
                if idx is None and '\n' in name:
                    idx = [l.strip().split(' ', 1)[0] for l in lines
                           if 'other' not in l][0] if lines else None
                if idx is None:
                    problems.append('%r/%s sort=%s: not offered: %r' % (
                        name, kind, sort, lst['stdout'][-300:]))
                    continue
                r2 = sb.run('trash-restore', ['--trash-dir', td, '--sort', sort,
                                              sb.path('work')], stdin=idx + '\n',
                            cwd=sb.path('work'))
                after = snap_entry() if os.path.isdir(work) else {}
                if after != before:
                    problems.append('%r/%s sort=%s: restored entry differs: %r vs %r'
                                    % (name, kind, sort, sorted(after.items())[:2],
                                       sorted(before.items())[:2]))
                t = sb.snapshot(td)
                left = sorted(k for k in t if k.count('/') == 1)
                if left != ['files/other', 'info/other.trashinfo']:
                    problems.append('%r/%s: trash after restore: %r' % (name, kind, left))
    return {'confirmed': bool(problems), 'problems': problems[:10]}


def _battery(S, r, o):
    return scenarios.merge_batteries(
        roundtrip_battery(S.interp.repo),
        scenarios.put_xdev_battery(S.interp.repo, 'restore'))


REPLAYERS = dict(c03.REPLAYERS)
REPLAYERS[''] = _battery
KF_CLASSES = {}


def finalize_args(S, tier, seed):
    a = c03.finalize_args(S, tier, seed)
    a['extra_assumptions'] = a['extra_assumptions'] + [
        'rename(2) preserves content, tree, link target, permissions and mtime '
        '(same inode): axiom about the OS',
        'history quantifier: put/restore/rm/empty of OTHER entries have frames '
        'disjoint from this entry\'s info and payload (their own VCs: C01, C10, '
        'C12); the induction over the history is stated, not mechanised',
        'put and restore are given the same volume list (mount table)',
        'BOUNDED: pipeline VC (see C13)']
    return a
