"""C18: trash-put acts on the named entry itself and never follows a final
symlink."""
from . import put, trashdirs, purge, scenarios

PROPERTY = 'C18'

def _base(S):
    S.install([trashdirs.VolumeOf(), trashdirs.HomeTrashDirPath(), put.MkdirP(),
               put.ForFile(), put.PutMove(), put.PutRemoveFile()],
              loops={trashdirs.VOLUME_OF_LOOP: trashdirs.volume_of_loop_annot()})
    return [trashdirs.VolumeOf().key, trashdirs.HomeTrashDirPath().key]

LEVEL_NOTE = ('presence is decided by lstat (lexists); the move source is '
              'normpath(argument), which has no trailing slash, so rename(2) '
              'acts on the link; the recorded location resolves only the parent '
              '(for_file post); the volume is that of the entry with its parent '
              'resolved (trash_file post)')
EXPECTED = [
    'put/single/presence-is-decided-by-lstat',
    'trashcli.put.janitor_tools.put_trash_dir.PutTrashDir.try_trash/post/moves-the-normalised-argument-to-the-payload-path',
    'trashcli.put.janitor_tools.put_trash_dir.PutTrashDir.try_trash/post/move-source-has-no-trailing-slash',
    'trashcli.put.original_location.OriginalLocation.for_file/post/only-the-parent-is-resolved',
    'put/file/volume-is-that-of-the-entry-parent-resolved',
    'put/monitor/move-source-is-the-normalised-argument',
]


def build(S, tier, seed):
    act = put.leaf_vcs(S)
    put.trash_file_in_vc(S, conservation=False)
    put.trash_file_vc(S)
    put.trash_single_vc(S)


def _battery(S, r, o):
    sp = [s for s in scenarios.SPELLINGS if s[0] in (
        'lf', 'ld', 'ld/', 'ld//', 'dl', 'ld/deep', 'd', 'd/')]
    return scenarios.merge_batteries(
        scenarios.put_spellings_battery(S.interp.repo, sp),
        scenarios.put_xdev_battery(S.interp.repo, 'move'))


REPLAYERS = {'': _battery}


KF_CLASSES = {}


def finalize_args(S, tier, seed):
    return {'extra_assumptions': [
        'rename(2) on a path without trailing slash renames the link itself; '
        'the copy fallback recreates links (symlinks=True): axioms about the OS']}
