"""Contracts and VCs of trash-put: C01, C04, C05, C07, C08 (write side), C16,
C17, C18 and the write side of C02/C03."""
import z3

from pyvc import spec, fsmodel
from pyvc.fsmodel import (ABSENT, DIR, FILE, SYMLINK, Event, fs_of, sticky_f,
                          ismount_f)
from pyvc.vc import Contract, LoopAnnot
from pyvc.values import (Sym, mk, z3bool, z3int, z3str, PyExc, Obj, TupleObj,
                         SymSeq, PathEnd, is_sym, StrSubObj, EnumMember)
from pyvc.libmodels import DateV, DATE_MAX_US
from .common import SV, arg_str, arg_int, arg_bool, T, wire
from . import purge, trashdirs
from .purge import shaped_path, TI, stem_of, sane_stem, payload_spec
from .trashdirs import nm_f, secure_top, HomeTrashDirPath, VolumeOf

O_WRONLY, O_CREAT, O_EXCL = 1, 0o100, 0o200
PERSIST_LOOP = ('trashcli.put.janitor_tools.info_file_persister',
                'InfoFilePersister.try_persist', 0)


def heap_frame(V, prefix):
    """C16 independence: processing one argument writes nothing into the
    objects that outlive it (the command's object graph)"""
    writes = [e for e in V.ctx.events if e[0] == 'heap-write']
    V.ctx.oblige(prefix + '/no-state-carried-over-to-the-next-argument',
                 z3.BoolVal(not writes),
                 info={'writes': [(w[1], w[2]) for w in writes[:5]]})


def put_objects(V):
    # TRASH_PUT_FAKE_UID_FOR_TESTING is a test hook of main(): assumed unset
    p_, _v = V.I.lib.environ().entry('TRASH_PUT_FAKE_UID_FOR_TESTING')
    V.ctx.assume(z3.Not(p_))
    c = wire(V, 'trashcli.put.main', 'trashcli.put.trash_put_cmd',
             'TrashPutCmd.run_put')
    cmd = c['self']
    V.I.persistent = {}
    V.I.mark_persistent(cmd)
    trasher = cmd.attrs['trasher']
    file_trasher = trasher.attrs['file_trasher']
    janitor = file_trasher.attrs['janitor']
    return {'cmd': cmd, 'trasher': trasher, 'file_trasher': file_trasher,
            'janitor': janitor, 'fs': trasher.attrs['fs'], 'wire': c}


# ---------------------------------------------------------------------------
class ShouldSkip(Contract):
    """should_skipped_by_specs(path): true exactly for arguments whose last
    component (trailing slashes ignored) is '.' or '..'"""
    module = 'trashcli.put.core.trashee'
    qualname = 'should_skipped_by_specs'

    def setup(self, V):
        return {'path': arg_str('path')}

    @staticmethod
    def spec(ctx, p):
        q = spec.rstrip_slashes(ctx, p)
        b = spec.basename(ctx, q)
        return z3.Or(b == SV('.'), b == SV('..'))

    def post(self, V, a, out):
        return [('dot-entries-in-every-spelling',
                 T(out[1]) == self.spec(V.ctx, T(a['path'])))]

    def apply(self, V, a):
        return mk(self.spec(V.ctx, T(a['path'])))


def should_skip_replayer():
    from pyvc.replay import pure_replayer
    import posixpath

    def violated(args, out):
        p = args['path']
        want = posixpath.basename(p.rstrip('/')) in ('.', '..')
        return out.get('result') != want
    return pure_replayer({'path': z3.String('arg.path')},
                         'trashcli.put.core.trashee', 'should_skipped_by_specs',
                         violated)


# ---------------------------------------------------------------------------
class Describe(Contract):
    """Describer.describe(path): some text; reads only.  ABSTRACTED (used in
    messages only)."""
    module = 'trashcli.put.describer'
    qualname = 'Describer.describe'

    def apply(self, V, a):
        return Sym(V.ctx.fresh_str('description'), 'str')


# ---------------------------------------------------------------------------
class AtomicWrite(Contract):
    """RealAtomicWrite.atomic_write(path, content): exclusive create
    (O_CREAT|O_EXCL, mode 0600) followed by one write of the whole content;
    on failure nothing created by this call remains."""
    module = 'trashcli.fs'
    qualname = 'RealAtomicWrite.atomic_write'
    raises = ('OSError',)

    def setup(self, V):
        self_obj = V.I.call(V.I.lookup(self.module, 'FsMethods'), [], {})
        c = Sym(z3.String('arg.content'), 'bytes')
        return {'self': self_obj, 'path': arg_str('path'), 'content': c}

    def post(self, V, a, out):
        fs = fs_of(V.I)
        p = T(a['path'])
        c = a['content'].t
        evs = fs.events
        res = []
        opens = [e for e in evs if e.op == 'open']
        res.append(('exactly-one-open', z3.BoolVal(len(opens) == 1)))
        for e in opens:
            flags = e.args[1]
            res.append(('exclusive-create-0600',
                        z3.And(e.args[0] == p,
                               z3.BoolVal(bool(flags & O_CREAT) and
                                          bool(flags & O_EXCL) and
                                          bool(flags & O_WRONLY) and
                                          e.args[2] == 0o600))))
        writes = [e for e in evs if e.op == 'write']
        for e in writes:
            res.append(('writes-the-whole-content-to-that-file',
                        z3.And(e.args[0] == p, e.args[1] == c)))
        res.append(('single-write', z3.BoolVal(len(writes) <= 1)))
        others = [e for e in evs if e.op not in ('open', 'write', 'close',
                                                 'remove')]
        res.append(('no-other-event', z3.BoolVal(not others)))
        created = bool(opens) and opens[0].ok
        removes = [e for e in evs if e.op == 'remove']
        for e in removes:
            res.append(('cleanup-removes-only-that-file', e.args[0] == p))
        res.append(('cleanup-only-of-a-file-created-by-this-call',
                    z3.BoolVal(created or not removes)))
        if out[0] == 'return':
            ok = created and len(writes) == 1 and writes[0].ok and not removes
            closes = [e for e in evs if e.op == 'close']
            res.append(('success-means-created-written-closed',
                        z3.BoolVal(bool(ok and closes and closes[-1].ok))))
        else:
            res.append(('failure-leaves-no-file-behind',
                        z3.BoolVal((not created) or len(removes) >= 1)))
            if created:
                closes = [e for e in evs if e.op == 'close']
                res.append(('descriptor-closed-on-failure',
                            z3.BoolVal(len(closes) >= 1)))
        return res

    def apply(self, V, a):
        fs = fs_of(V.I)
        ctx = V.ctx
        p = T(a['path'])
        content = a['content']
        c = content.t if is_sym(content) else z3str(content)
        ctx.used_axioms.add('atomic_write contract: the cleanup unlink of the '
                            'file just created does not itself fail')
        pre_lk = fs.lkind(p)
        taken = ctx.branch(pre_lk != ABSENT, 'info-name-taken')
        if taken:
            d = 1
        else:
            d = ctx.choose(1 if fs.fault_free else 2, 'atomic_write')
        pre = fs.sigma
        if d == 0:
            pre, post = fs.step([p])
        ev = fs.record(Event('create-info', [p, c], d == 0, pre=pre,
                             post=fs.sigma,
                             extra={'pre_lkind': pre_lk, 'taken': taken}))
        if d == 0:
            ctx.assume(fs.lkind(p) == FILE)
            return None
        e = fsmodel.os_error(V.I, 'atomic_write', a['path'])
        if taken:
            ctx.assume(e.attrs['errno'].t == 17)
        ev.errno = e.attrs['errno'].t
        raise PyExc(e)


# ---------------------------------------------------------------------------
class MkdirP(Contract):
    """DirMaker.mkdir_p(path, mode): one makedirs(path, mode); an error is
    propagated only if the path is not a directory afterwards (so a
    concurrent creation is not an error)"""
    module = 'trashcli.put.dir_maker'
    qualname = 'DirMaker.mkdir_p'
    raises = ('OSError',)

    def setup(self, V):
        o = put_objects(V)
        dm = o['janitor'].attrs['dir_creator'].attrs['dir_maker']
        return {'self': dm, 'path': arg_str('path'), 'mode': arg_int('mode')}

    def post(self, V, a, out):
        fs = fs_of(V.I)
        p = T(a['path'])
        mk_ = [e for e in fs.events if e.op == 'makedirs']
        res = [('exactly-one-makedirs', z3.BoolVal(
            len(mk_) == 1 and len(fs.events) == 1))]
        for e in mk_:
            res.append(('makedirs-of-that-path-with-that-mode',
                        z3.And(e.args[0] == p, z3int(e.args[1]) == T(a['mode']))))
        if out[0] == 'return':
            res.append(('directory-exists-on-return', fs.kind(p) == DIR))
        else:
            res.append(('error-only-if-still-not-a-directory',
                        fs.kind(p) != DIR))
        return res

    def apply(self, V, a):
        fs = fs_of(V.I)
        ctx = V.ctx
        p = T(a['path'])
        d = ctx.choose(1 if fs.fault_free else 3, 'mkdir_p')
        # 0: created (or already there)  1: failed but is a directory
        # 2: failed and not a directory -> raises
        pre, post = fs.step([p])
        fs.record(Event('makedirs', [p, a['mode']], d == 0, pre=pre, post=post))
        if d in (0, 1):
            ctx.assume(fs.kind(p) == DIR)
            return None
        ctx.assume(fs.kind(p) != DIR)
        raise PyExc(fsmodel.os_error(V.I, 'makedirs', a['path']))


# ---------------------------------------------------------------------------
CANDIDATE_KINDS = [
    ('AbsolutePaths', 'NoCheck', 'SameVolume'),        # home trash
    ('RelativePaths', 'TopTrashDirCheck', 'SameVolume'),   # $topdir/.Trash/$uid
    ('RelativePaths', 'NoCheck', 'SameVolume'),        # .Trash-$uid, --trash-dir
    ('AbsolutePaths', 'NoCheck', 'HomeFallback'),      # home as fallback
]


def candidate_of(V, shapes=True, kinds=None):
    """an arbitrary Candidate"""
    ctx = V.ctx
    cls = V.I.lookup('trashcli.put.core.candidate', 'Candidate')
    pm = V.I.lookup('trashcli.put.core.path_maker_type', 'PathMakerType')
    ct = V.I.lookup('trashcli.put.core.check_type', 'CheckType')
    gate = V.I.lookup('trashcli.put.gate', 'Gate')
    td = arg_str('trash_dir_path')
    if shapes == 'attempt':
        # a trash directory path is not '' (falsy: option ignored) and not
        # the root directory itself: without or with trailing slashes
        if ctx.choose(2, 'td-shape') == 0:
            ctx.assume(z3.And(td.t != SV(''), z3.Not(z3.SuffixOf(SV('/'), td.t))))
            spec.mark_noendslash(ctx, td.t)
            tdv = td
        else:
            base = ctx.fresh_str('tdbase')
            sl = ctx.fresh_str('tdsl')
            ctx.assume(z3.And(base != SV(''), z3.Not(z3.SuffixOf(SV('/'), base))))
            ctx.assume(z3.And(sl != SV(''), z3.InRe(sl, z3.Star(z3.Re('/')))))
            spec.mark_noendslash(ctx, base)
            spec.mark_slashes1(ctx, sl)
            ctx.assume(td.t == z3.Concat(base, sl))
            tdv = Sym(z3.Concat(base, sl), 'str')
    elif shapes:
        tdv, sh = shaped_path(V.I, td.t, 'td-shape')
    else:
        tdv = td
    vol = arg_str('candidate_volume')
    # the four kinds of candidate the finder produces (Finder contract)
    kinds = kinds or CANDIDATE_KINDS
    k = kinds[ctx.choose(len(kinds), 'candidate-kind')]
    pmt = [m for m in pm.enum_members if m.attrs['name'] == k[0]][0]
    chk = [m for m in ct.enum_members if m.attrs['name'] == k[1]][0]
    gt = [m for m in gate.enum_members if m.attrs['name'] == k[2]][0]
    return V.I.call(cls, [tdv, vol, pmt, chk, gt], {})


class SecurityCheckC(Contract):
    """SecurityCheck.check_trash_dir_is_secure(candidate): for the
    $topdir/.Trash/$uid candidate, Right iff $topdir/.Trash exists, is a
    directory, is not a symlink and is sticky; NoCheck candidates pass"""
    module = 'trashcli.put.janitor_tools.security_check'
    qualname = 'SecurityCheck.check_trash_dir_is_secure'

    def setup(self, V):
        o = put_objects(V)
        return {'self': o['janitor'].attrs['security_check'],
                'candidate': candidate_of(V)}

    def post(self, V, a, out):
        fs = fs_of(V.I)
        cand = a['candidate']
        r = out[1]
        right = r.cls.name == 'Right'
        if cand.items[3].attrs['name'] == 'NoCheck':
            return [('no-check-passes', z3.BoolVal(right)),
                    ('no-fs-event', z3.BoolVal(not fs.events))]
        parent = spec.dirname(V.ctx, T(cand.items[0]))
        return [('right-iff-secure-parent',
                 z3.BoolVal(right) == secure_top(fs, parent)),
                ('no-fs-event', z3.BoolVal(not fs.events))]


# ---------------------------------------------------------------------------
class Finder(Contract):
    """TrashDirectoriesFinder.possible_trash_directories_for: the ordered
    candidate list the spec prescribes (C07)"""
    module = 'trashcli.put.trash_directories_finder'
    qualname = 'TrashDirectoriesFinder.possible_trash_directories_for'

    def setup(self, V):
        o = put_objects(V)
        ctx = V.ctx
        user_dir = None
        if ctx.choose(2, 'trash-dir-option') == 1:
            user_dir = arg_str('specific_trash_dir')
        uid = arg_int('uid')
        ctx.assume(T(uid) >= 0)
        return {'self': o['file_trasher'].attrs['trash_directories_finder'],
                'volume': arg_str('volume'), 'specific_trash_dir': user_dir,
                'environ': V.I.lib.environ(), 'uid': uid,
                'home_fallback': ctx.choose(2, 'home-fallback') == 1}

    def post(self, V, a, out):
        ctx = V.ctx
        fs = fs_of(V.I)
        r = out[1]
        if not isinstance(r, list):
            return [('result-shape', z3.BoolVal(False))]

        def fields(c):
            return (T(c.items[0]), T(c.items[1]), c.items[2].attrs['name'],
                    c.items[3].attrs['name'], c.items[4].attrs['name'])
        res = []
        if a['specific_trash_dir'] is not None:
            d = T(a['specific_trash_dir'])
            if not ctx.entails(d != SV('')):
                pass
            ok = len(r) == 1
            res.append(('trash-dir-option-restricts-the-choice',
                        z3.Implies(d != SV(''), z3.BoolVal(ok))))
            if ok:
                p, v, pm, ck, g = fields(r[0])
                res.append(('trash-dir-option-candidate',
                            z3.Implies(d != SV(''), z3.And(
                                p == d,
                                v == nm_f(fs.sigma, spec.abspath(ctx, d)),
                                z3.BoolVal((pm, ck, g) == (
                                    'RelativePaths', 'NoCheck', 'SameVolume'))))))
            return res
        use_x, xpath, has_h, hpath = HomeTrashDirPath.table(a['environ'])
        home = z3.If(use_x, xpath, hpath)
        has_home = z3.Or(use_x, has_h)
        uidstr = z3str(V.I.lib.to_str(a['uid']))
        vol = T(a['volume'])
        top = spec.join(vol, z3.Concat(SV('.Trash/'), uidstr), ctx=ctx)
        alt = spec.join(vol, z3.Concat(SV('.Trash-'), uidstr), ctx=ctx)
        want = []
        n_home = [c for c in r if c.items[2].attrs['name'] == 'AbsolutePaths']
        tops = [c for c in r if c.items[3].attrs['name'] == 'TopTrashDirCheck']
        rest = [c for c in r if c not in n_home and c not in tops]
        res.append(('one-top-and-one-alt-candidate',
                    z3.BoolVal(len(tops) == 1 and len(rest) == 1)))
        res.append(('home-candidate-iff-environment-names-one',
                    z3.BoolVal(len(n_home) >= 1) == has_home))
        if len(tops) == 1 and len(rest) == 1:
            order_ok = True
            # order: home(SameVolume), top, alt, [home(HomeFallback)]
            names = [(c.items[2].attrs['name'], c.items[3].attrs['name'],
                      c.items[4].attrs['name']) for c in r]
            exp_mid = [('RelativePaths', 'TopTrashDirCheck', 'SameVolume'),
                       ('RelativePaths', 'NoCheck', 'SameVolume')]
            if n_home:
                exp = [('AbsolutePaths', 'NoCheck', 'SameVolume')] + exp_mid
                if a['home_fallback']:
                    exp = exp + [('AbsolutePaths', 'NoCheck', 'HomeFallback')]
            else:
                exp = exp_mid
            res.append(('candidates-in-the-prescribed-order',
                        z3.BoolVal(names == exp)))
            p, v, _pm, _ck, _g = fields(tops[0])
            res.append(('top-candidate-is-volume-dot-Trash-uid',
                        z3.And(p == top, v == vol)))
            p, v, _pm, _ck, _g = fields(rest[0])
            res.append(('alt-candidate-is-volume-dot-Trash-dash-uid',
                        z3.And(p == alt, v == vol)))
            for c in n_home:
                p, v, _pm, _ck, _g = fields(c)
                res.append(('home-candidate-path-and-volume',
                            z3.And(p == home,
                                   v == nm_f(fs.sigma, spec.abspath(ctx, home)))))
        return res


# ---------------------------------------------------------------------------
class PutMove(Contract):
    """RealFs.move(path, dest) of trash-put: one rename(2); only when that
    fails with EXDEV the copy-then-delete fallback.  A failure other than in
    the cross-device fallback changes nothing."""
    module = 'trashcli.put.fs.real_fs'
    qualname = 'RealFs.move'
    raises = ('OSError',)

    def setup(self, V):
        o = put_objects(V)
        return {'self': o['fs'], 'path': arg_str('src'), 'dest': arg_str('dest')}

    def post(self, V, a, out):
        fs = fs_of(V.I)
        src, dst = T(a['path']), T(a['dest'])
        evs = fs.events
        res = []
        renames = [e for e in evs if e.op == 'rename']
        res.append(('starts-with-one-rename-of-src-to-dest',
                    z3.And(z3.BoolVal(len(evs) >= 1 and evs[0].op == 'rename'),
                           *([evs[0].args[0] == src, evs[0].args[1] == dst]
                             if evs and evs[0].op == 'rename' else []))))
        phases = [e for e in evs if e.op in ('copy', 'delete-src')]
        first_errno = renames[0].errno if renames and not renames[0].ok else None
        if len(evs) > 1:
            res.append(('fallback-only-after-EXDEV',
                        first_errno == 18 if first_errno is not None
                        else z3.BoolVal(False)))
        for e in evs[1:]:
            if e.op == 'rename':
                res.append(('fallback-acts-on-src', e.args[0] == src))
            elif e.op == 'copy':
                res.append(('fallback-acts-on-src', e.args[0] == src))
            elif e.op == 'delete-src':
                res.append(('fallback-acts-on-src', e.args[0] == src))
            elif e.op != 'move-refused':
                res.append(('no-other-event', z3.BoolVal(False)))
        moved = any(e.ok for e in renames) or any(
            e.op == 'delete-src' and e.ok for e in evs)
        opts = [e for e in V.ctx.events if e[0] == 'shutil.move-options']
        res.append(('fallback-copy-preserves-metadata-default-copy2',
                    z3.BoolVal(not opts)))
        if out[0] == 'return':
            res.append(('return-means-moved', z3.BoolVal(moved)))
        else:
            res.append(('failure-means-not-moved', z3.BoolVal(not moved)))
        return res

    def apply(self, V, a):
        fs = fs_of(V.I)
        ctx = V.ctx
        src, dst = T(a['path']), T(a['dest'])
        d = ctx.choose(1 if fs.fault_free else 3, 'put-move')
        # 0 moved | 1 failed, nothing changed | 2 failed inside the
        # cross-device copy+delete fallback (partial copy / partial source)
        en = ctx.fresh_int('errno')
        ctx.assume(z3.And(en > 0, en < 200))
        pre, post = (fs.step([src, dst]) if d != 1 else (fs.sigma, fs.sigma))
        fs.record(Event('move', [src, dst], d == 0, errno=en, pre=pre,
                        post=post, extra={'partial': d == 2}))
        if d == 0:
            ctx.assume(fs.lkind(src) == ABSENT)
            return None
        if d == 2:
            ctx.assume(en == 18)
        e = fsmodel.os_error(V.I, 'move', a['path'])
        ctx.assume(e.attrs['errno'].t == en)
        raise PyExc(e)


class PutRemoveFile(Contract):
    """RealRemoveFile.remove_file(path): removes that entry (file, link or
    tree) if present; touches nothing else"""
    module = 'trashcli.fs'
    qualname = 'RealRemoveFile.remove_file'
    raises = ('OSError',)

    def setup(self, V):
        self_obj = V.I.call(V.I.lookup(self.module, 'FsMethods'), [], {})
        return {'self': self_obj, 'path': arg_str('path')}

    def post(self, V, a, out):
        fs = fs_of(V.I)
        p = T(a['path'])
        res = []
        for e in fs.events:
            res.append(('touches-only-the-named-entry',
                        z3.And(z3.BoolVal(e.op in ('remove', 'rmtree')),
                               e.args[0] == p)))
        if out[0] == 'return':
            res.append(('gone-on-return', fs.lkind(p) == ABSENT))
        return res

    def apply(self, V, a):
        fs = fs_of(V.I)
        ctx = V.ctx
        p = T(a['path'])
        if not ctx.branch(fs.lkind(p) != ABSENT, 'remove_file-present'):
            return None
        d = ctx.choose(1 if fs.fault_free else 2, 'remove_file')
        pre, post = fs.step([p])
        fs.record(Event('remove-tree', [p], d == 0, pre=pre, post=post))
        if d == 0:
            ctx.assume(fs.lkind(p) == ABSENT)
            return None
        raise PyExc(fsmodel.os_error(V.I, 'remove_file', a['path']))


# ---------------------------------------------------------------------------
def relate_parent_to_volume(ctx, fs, path_t, vol_t):
    """case split on how realpath(parent of the argument) relates to the
    volume: equal | strictly beneath (parent = vol/ ++ rest) | elsewhere.
    Exhaustive because realpath results are clean (no '//', no trailing
    slash): lemma put/lemma/rest-of-a-clean-path."""
    np_ = spec.normpath(ctx, path_t)
    parent = spec.realpath(ctx, fs.sigma, spec.dirname(ctx, np_))
    volp = vol_t if spec.lit(vol_t) == '/' else z3.Concat(vol_t, SV('/'))
    d = ctx.fork([parent == vol_t,
                  z3.And(parent != vol_t, z3.PrefixOf(volp, parent)),
                  z3.And(parent != vol_t, z3.Not(z3.PrefixOf(volp, parent)))],
                 'parent-vs-volume')
    if d == 1:
        rest = ctx.fresh_str('rest')
        ctx.assume(parent == z3.Concat(volp, rest))
        ctx.assume(z3.And(rest != SV(''), z3.Not(z3.PrefixOf(SV('/'), rest)),
                          z3.Not(z3.SuffixOf(SV('/'), rest))))
        # no '..' component in rest (same lemma: parent has none)
        ctx.assume(z3.And(rest != SV('..'),
                          z3.Not(z3.PrefixOf(SV('../'), rest)),
                          z3.Not(z3.SuffixOf(SV('/..'), rest)),
                          z3.Not(z3.Contains(rest, SV('/../')))))
        spec.mark_noendslash(ctx, rest)
        spec.set_alias(ctx, parent, z3.Concat(volp, rest))
        ctx.ghost['rest'] = rest
    elif d == 0:
        spec.set_alias(ctx, parent, vol_t)
    else:
        # elsewhere: an absolute clean path: '/' or without trailing slash
        if ctx.branch(parent == SV('/'), 'parent-is-root'):
            spec.set_alias(ctx, parent, SV('/'))
        else:
            spec.mark_noendslash(ctx, parent)
    ctx.ghost['parent_rel'] = d
    return d


def lemma_rest_of_clean_path(V):
    """if a clean path (no '//', no trailing '/') is prefix ++ rest with
    prefix ending in '/', then rest is non-empty... (when path != prefix
    stripped), does not start and does not end with '/'"""
    p = z3.String('lemma.parent')
    pre = z3.String('lemma.prefix')
    rest = z3.String('lemma.rest')
    V.ctx.assume(z3.And(z3.Not(z3.Contains(p, SV('//'))),
                        z3.Not(z3.SuffixOf(SV('/'), p)),
                        z3.Not(z3.Contains(p, SV('/../'))),
                        z3.Not(z3.SuffixOf(SV('/..'), p)),
                        p == z3.Concat(pre, rest),
                        z3.SuffixOf(SV('/'), pre)))
    return [('rest-not-empty', rest != SV('')),
            ('rest-is-not-dotdot', rest != SV('..')),
            ('rest-does-not-start-with-dotdot',
             z3.Not(z3.PrefixOf(SV('../'), rest))),
            ('rest-does-not-end-with-dotdot',
             z3.Not(z3.SuffixOf(SV('/..'), rest))),
            ('rest-has-no-dotdot-inside',
             z3.Not(z3.Contains(rest, SV('/../')))),
            ('rest-does-not-start-with-slash',
             z3.Not(z3.PrefixOf(SV('/'), rest))),
            ('rest-does-not-end-with-slash',
             z3.Not(z3.SuffixOf(SV('/'), rest)))]


def lemma_join_keeps_dotdot_out(V):
    rest, base = z3.String('lemma.rest'), z3.String('lemma.base')
    nd = lambda x: z3.And(x != SV('..'), z3.Not(z3.PrefixOf(SV('../'), x)),
                          z3.Not(z3.SuffixOf(SV('/..'), x)),
                          z3.Not(z3.Contains(x, SV('/../'))))
    V.ctx.assume(z3.And(nd(rest), rest != SV(''),
                        z3.Not(z3.SuffixOf(SV('/'), rest)),
                        base != SV(''), base != SV('.'), base != SV('..'),
                        z3.Not(z3.Contains(base, SV('/')))))
    return [('rest-slash-base', nd(z3.Concat(rest, SV('/'), base))),
            ('base-alone', nd(base))]


class ForFile(Contract):
    """OriginalLocation.for_file(path, path_maker_type, volume_top_dir): the
    location recorded in the .trashinfo: realpath(parent)/basename of the
    normalised argument, made relative to the volume for volume trash dirs"""
    module = 'trashcli.put.original_location'
    qualname = 'OriginalLocation.for_file'

    def setup(self, V):
        o = put_objects(V)
        ctx = V.ctx
        fs = fs_of(V.I)
        ol = o['janitor'].attrs['info_dir'].attrs['original_location']
        pm = V.I.lookup('trashcli.put.core.path_maker_type', 'PathMakerType')
        pmt = pm.enum_members[ctx.choose(2, 'path-maker')]
        vol = arg_str('volume_top_dir')
        # volumes are what volume_of returns: '/' or absolute without
        # trailing slash (VolumeOf contract)
        if ctx.choose(2, 'vol-is-root') == 0:
            v = '/'
        else:
            ctx.assume(z3.And(vol.t != SV(''), z3.PrefixOf(SV('/'), vol.t),
                              z3.Not(z3.SuffixOf(SV('/'), vol.t))))
            spec.mark_noendslash(ctx, vol.t)
            v = vol
        path = arg_str('path')
        relate_parent_to_volume(ctx, fs, path.t, T(v))
        return {'self': ol, 'path': path, 'path_maker_type': pmt,
                'volume_top_dir': v}

    def pre(self, V, a):
        # callers: the argument is not a dot entry (refused earlier), is not
        # the root directory, and the volume is what volume_of returns
        np_ = spec.normpath(V.ctx, T(a['path']))
        return [z3.Not(ShouldSkip.spec(V.ctx, T(a['path']))),
                T(a['path']) != SV(''),      # '' never exists (lexists)
                np_ != SV('/'), np_ != SV('//'),
                T(a['volume_top_dir']) != SV('')]

    @staticmethod
    def _nodotdot_structural(ctx, r, base):
        """the relative location is `base` or rest/base with rest free of '..'
        components (put/lemma/rest-of-a-clean-path) and base a real name: by
        put/lemma/joining-keeps-dotdot-out it has no '..' component"""
        rel = ctx.ghost.get('parent_rel')
        good_base = z3.And(base != SV(''), base != SV('.'), base != SV('..'),
                           z3.Not(z3.Contains(base, SV('/'))))
        if rel == 0:
            return z3.And(r == base, good_base)
        if rel == 1:
            rest = ctx.ghost['rest']
            return z3.And(r == z3.Concat(rest, SV('/'), base), good_base)
        return z3.BoolVal(True)

    @staticmethod
    def parts(ctx, fs, path):
        np_ = spec.normpath(ctx, path)
        parent = spec.realpath(ctx, fs.sigma, spec.dirname(ctx, np_))
        base = spec.basename(ctx, np_)
        return np_, parent, base

    def post(self, V, a, out):
        ctx = V.ctx
        fs = fs_of(V.I)
        r = T(out[1])
        np_, parent, base = self.parts(ctx, fs, T(a['path']))
        vol = T(a['volume_top_dir'])
        absolute = spec.join(parent, base, ctx=ctx)
        if a['path_maker_type'].attrs['name'] == 'AbsolutePaths':
            return [('absolute-location-is-realpath-of-parent-slash-basename',
                     r == absolute),
                    ('only-the-parent-is-resolved',
                     spec.basename(ctx, r) == base)]
        volp = vol if ctx.entails(z3.SuffixOf(SV('/'), vol)) else \
            z3.Concat(vol, SV('/'))
        under = z3.Or(parent == vol, z3.PrefixOf(volp, parent))
        return [
            ('relative-location-rejoins-to-the-absolute-one',
             z3.Implies(under, spec.join(vol, r, ctx=ctx) == absolute)),
            ('relative-location-is-relative',
             z3.Implies(under, z3.Not(z3.PrefixOf(SV('/'), r)))),
            ('relative-location-has-no-dotdot',
             self._nodotdot_structural(ctx, r, base)),
            ('outside-the-volume-stays-absolute',
             z3.Implies(z3.Not(under), r == absolute)),
            ('only-the-parent-is-resolved', spec.basename(ctx, r) == base),
        ]

    def apply(self, V, a):
        ctx = V.ctx
        fs = fs_of(V.I)
        vol = T(a['volume_top_dir'])
        rel = relate_parent_to_volume(ctx, fs, T(a['path']), vol)
        np_, parent, base = self.parts(ctx, fs, T(a['path']))
        absolute = spec.join(parent, base, ctx=ctx)
        ctx.ghost['for_file'] = {'np': np_, 'parent': parent, 'base': base,
                                 'absolute': absolute, 'rel': rel}
        if a['path_maker_type'].attrs['name'] == 'AbsolutePaths' or rel == 2:
            return mk(absolute)
        if rel == 0:
            return mk(base)
        return mk(spec.join(ctx.ghost['rest'], base, ctx=ctx))


# ---------------------------------------------------------------------------
class CreateTrashinfoBasename(Contract):
    """create_trashinfo_basename(basename, suffix, name_too_long):
    basename (truncated by the length of suffix+'.trashinfo' when the name was
    too long) + suffix + '.trashinfo'"""
    module = 'trashcli.put.janitor_tools.info_file_persister'
    qualname = 'create_trashinfo_basename'

    def setup(self, V):
        return {'basename': arg_str('basename'), 'suffix': arg_str('suffix'),
                'name_too_long': arg_bool('name_too_long')}

    @staticmethod
    def trunc_facts(b, suf, trunc):
        after = z3.Length(suf) + len(TI)
        n = z3.Length(b) - after
        # python slice b[0:n]: a negative n counts from the end
        lb = z3.Length(b)
        ln = z3.If(n >= 0, n, z3.If(lb + n < 0, z3.IntVal(0), lb + n))
        return z3.And(z3.PrefixOf(trunc, b), z3.Length(trunc) == ln)

    def post(self, V, a, out):
        b, suf = T(a['basename']), T(a['suffix'])
        r = T(out[1])
        ntl = T(a['name_too_long'])
        trunc = V.ctx.fresh_str('trunc')
        V.ctx.assume(self.trunc_facts(b, suf, trunc))
        return [('untruncated-name-plus-suffix-plus-trashinfo',
                 z3.Implies(z3.Not(ntl), r == z3.Concat(b, suf, SV(TI)))),
                ('truncated-name-plus-suffix-plus-trashinfo',
                 z3.Implies(ntl, r == z3.Concat(trunc, suf, SV(TI))))]

    def apply(self, V, a):
        ctx = V.ctx
        b, suf = T(a['basename']), T(a['suffix'])
        ntl = a['name_too_long']
        if ctx.branch(T(ntl) if is_sym(ntl) else z3.BoolVal(bool(ntl)),
                      'name-too-long'):
            trunc = ctx.fresh_str('trunc')
            ctx.assume(self.trunc_facts(b, suf, trunc))
            if spec.noslash(ctx, b):
                ctx.assume(z3.Not(z3.Contains(trunc, SV('/'))))
                spec.mark_noslash(ctx, trunc)
            return mk(spec.cat(spec.cpieces(ctx, trunc) + spec.cpieces(ctx, suf)
                               + [SV(TI)]))
        return mk(spec.cat(spec.cpieces(ctx, b) + spec.cpieces(ctx, suf)
                           + [SV(TI)]))


# ---------------------------------------------------------------------------
def trashinfo_text(loc, now_us):
    """spec of the .trashinfo content (C03)"""
    return z3.Concat(SV('[Trash Info]\nPath='), spec.quote_f(loc, SV('/')),
                     SV('\nDeletionDate='),
                     spec.strftime_f(SV('%Y-%m-%dT%H:%M:%S'), now_us),
                     SV('\n'))


def persist_loop_annot(prefix):
    def n_ok_creates(I):
        fs = fs_of(I)
        return len([e for e in fs.events if e.op == 'create-info' and e.ok])

    def inv(I, env):
        idx = T(env.vars['index'])
        ntl = T(env.vars['name_too_long'])
        return [('index-non-negative', idx >= 0),
                ('truncation-only-after-a-failed-attempt',
                 z3.Implies(ntl, idx >= 1)),
                ('no-info-created-by-earlier-attempts',
                 z3.BoolVal(n_ok_creates(I) == 0))]

    def variant(I, env):
        self_obj = env.vars['self']
        m = I.getattr(self_obj, 'max_attempts', None)
        if m is None:
            return z3.IntVal(0)      # no bound in the code: variant fails
        return T(m) - T(env.vars['index'])

    return LoopAnnot(invariant=inv, variant=variant,
                     types={'index': 'int', 'name_too_long': 'bool'},
                     keep={'e'})


def trash_file_in_vc(S, prefix='put', conservation=True):
    """Janitor.trash_file_in on an arbitrary candidate, trashee, fs state and
    fault sequence: the typestate monitor of DESIGN.md section 2.4"""
    contracts = [AtomicWrite(), VolumeOf(), Describe(), MakeCandidateDirs(),
                 MakeTrashinfoData(), TryTrash(), purge.PathOfBackupCopy(),
                 CreateTrashinfoBasename()]
    loops = {PERSIST_LOOP: persist_loop_annot(prefix)}
    I = S.interp

    def hook(I_, fv, vals):
        if fv.qualname == 'format_trashinfo':
            I_.ctx.ghost['fmt_args'] = vals

    def body(V):
        ctx = V.ctx
        o = put_objects(V)
        # shapes of normpath/volume_of results are irrelevant here (they are
        # only compared or passed on): no case split on them
        ctx.ghost['normpath_no_shape_fork'] = True
        ctx.ghost['volume_no_shape_fork'] = True
        janitor = o['janitor']
        cand = candidate_of(V, shapes='attempt')
        path = arg_str('path')
        tvol = arg_str('trashee_volume')
        ctx.assume(z3.Not(ShouldSkip.spec(ctx, path.t)))
        ctx.assume(path.t != SV(''))
        np0 = spec.normpath(ctx, path.t)
        ctx.assume(z3.And(np0 != SV('/'), np0 != SV('//')))   # not the root
        trashee = V.I.call(V.I.lookup('trashcli.put.core.trashee', 'Trashee'),
                           [path, tvol], {})
        log_data = V.I.call(V.I.lookup('trashcli.put.core.logs', 'LogData'),
                            ['trash-put', 0], {})
        environ = V.I.lib.environ()
        fs = fs_of(V.I)
        td = T(cand.items[0])
        info_dir = spec.join(td, SV('info'), ctx=ctx)
        files_dir = spec.join(td, SV('files'), ctx=ctx)
        fv = S.resolve('trashcli.put.janitor', 'Janitor.trash_file_in')
        for q in (('trashcli.put.janitor_tools.trash_dir_checker',
                   'TrashDirChecker.file_could_be_trashed_in'),
                  ('trashcli.put.janitor_tools.trash_dir_checker',
                   'SameVolumeGateImpl.can_trash_in'),
                  ('trashcli.put.trash_dir_volume_reader',
                   'TrashDirVolumeReader.volume_of_trash_dir'),
                  ('trashcli.put.janitor_tools.trash_dir_creator',
                   'TrashDirCreator.make_candidate_dirs'),
                  ('trashcli.put.janitor_tools.info_creator',
                   'TrashInfoCreator.make_trashinfo_data'),
                  ('trashcli.put.format_trash_info', 'format_trashinfo'),
                  ('trashcli.put.janitor_tools.info_file_persister',
                   'InfoFilePersister.try_persist'),
                  ('trashcli.put.janitor_tools.info_file_persister',
                   'create_trashinfo_basename'),
                  ('trashcli.put.suffix', 'Suffix.suffix_for_index'),
                  ('trashcli.put.jobs', 'JobExecutor.execute'),
                  ('trashcli.put.janitor_tools.put_trash_dir',
                   'PutTrashDir.try_trash'),
                  ('trashcli.put.janitor_tools.put_trash_dir', 'move_file'),
                  ('trashcli.put.fs.real_fs', 'RealFs.move'),
                  ('trashcli.put.fs.real_fs', 'RealFs.remove_file'),
                  ('trashcli.fs', 'RealRemoveFile.remove_file'),
                  ('trashcli.fs', 'RealMove.move'),
                  ('trashcli.put.janitor_tools.security_check',
                   'SecurityCheck.check_trash_dir_is_secure')):
            S.note_function(*q)
        sec_parent = spec.dirname(ctx, td)
        secure0 = secure_top(fs, sec_parent)
        sigma0 = fs.sigma
        try:
            r = V.I.call_function(fv, [], {'self': janitor, 'candidate': cand,
                                           'log_data': log_data,
                                           'environ': environ,
                                           'trashee': trashee})
            outcome = ('return', r)
        except PyExc as pe:
            ctx.oblige(prefix + '/attempt/nothrow', z3.BoolVal(False),
                       kind='nothrow',
                       info={'exception': pe.value.cls.name,
                             'op': pe.value.attrs.get('op')})
            return
        ok = r.items[0]
        if is_sym(ok):
            ctx.oblige(prefix + '/attempt/result-shape', z3.BoolVal(False))
            return
        evs = fs.events
        gate = cand.items[4].attrs['name']
        check = cand.items[3].attrs['name']
        # ---- replay the trace through the monitor -------------------------
        state = 'untouched'       # untouched | reserved | trashed
        P = None
        obl = []
        n_mk = 0
        first_rename_errno = None
        copied = False
        src_changed = False
        stray = False
        np_ = spec.normpath(ctx, path.t)
        for e in evs:
            if e.op == 'make-dirs':
                if state != 'untouched' or n_mk >= 1:
                    obl.append(('monitor/mkdir-only-before-the-reservation',
                                z3.BoolVal(False)))
                else:
                    obl.append(('monitor/creates-the-skeleton-of-this-trash-dir',
                                e.args[0] == td))
                n_mk += 1
            elif e.op == 'makedirs':
                want = [td, files_dir, info_dir]
                if state != 'untouched' or n_mk >= 3:
                    obl.append(('monitor/mkdir-only-before-the-reservation',
                                z3.BoolVal(False)))
                else:
                    obl.append(('monitor/creates-only-the-trash-dir-skeleton-0700',
                                z3.And(e.args[0] == want[n_mk],
                                       T(e.args[1]) == 0o700)))
                n_mk += 1
            elif e.op == 'create-info':
                obl.append(('monitor/one-reservation-at-a-time',
                            z3.BoolVal(state == 'untouched')))
                Pc = e.args[0]
                pay, stem, tdx = payload_spec(ctx, Pc)
                obl.append(('monitor/info-created-in-info-dir-with-trashinfo-suffix',
                            z3.And(spec.dirname(ctx, Pc) == info_dir,
                                   z3.SuffixOf(SV(TI), spec.basename(ctx, Pc)))))
                obl.append(('monitor/name-skipped-unless-payload-absent',
                            fs.lkind(pay, e.pre) == ABSENT))
                ti = ctx.ghost.get('trashinfo')
                if ti is None:
                    obl.append(('monitor/content-comes-from-make_trashinfo_data',
                                z3.BoolVal(False)))
                else:
                    obl.append(('monitor/content-written-is-the-prepared-content',
                                e.args[1] == ti['text']))
                if e.ok:
                    state = 'reserved'
                    P = Pc
            elif e.op == 'move':
                obl.append(('monitor/move-only-after-the-info-is-written',
                            z3.BoolVal(state == 'reserved')))
                if state != 'reserved':
                    continue
                pay, stem, tdx = payload_spec(ctx, P)
                obl.append(('monitor/move-source-is-the-normalised-argument',
                            e.args[0] == np_))
                obl.append(('monitor/move-destination-is-the-payload-of-the-info',
                            e.args[1] == pay))
                if e.ok:
                    state = 'trashed'
                    src_changed = True
                elif e.extra.get('partial'):
                    copied = True
                    first_rename_errno = e.errno
            elif e.op == 'remove-tree':
                if state != 'reserved' or P is None:
                    obl.append(('monitor/only-the-own-reservation-is-removed',
                                z3.BoolVal(False)))
                    continue
                obl.append(('monitor/only-the-own-reservation-is-removed',
                            e.args[0] == P))
                if e.ok:
                    state = 'untouched'
                    P = None
                else:
                    stray = True
            else:
                obl.append(('monitor/unexpected-event-%s' % e.op,
                            z3.BoolVal(False)))
        for n, f in obl:
            ctx.oblige(prefix + '/' + n, f, kind='monitor')
        terms = {'rename_errno': first_rename_errno if first_rename_errno
                 is not None else z3.IntVal(0)}
        if not conservation:
            pass
        elif ok:
            ctx.oblige(prefix + '/attempt/success-means-trashed',
                       z3.BoolVal(state == 'trashed'))
        else:
            ctx.oblige(prefix + '/attempt/failure-leaves-the-source-untouched',
                       z3.BoolVal(not src_changed and not copied),
                       info={'terms': terms})
            ctx.oblige(prefix + '/attempt/failure-leaves-no-reservation-behind',
                       z3.BoolVal(state == 'untouched' or stray))
        # ---- gates and security (C07, C08) ---------------------------------
        mutated = len(evs) > 0
        if check == 'TopTrashDirCheck':
            ctx.oblige(prefix + '/attempt/insecure-top-trash-dir-is-never-touched',
                       z3.Implies(z3.Not(secure0), z3.BoolVal(not mutated)))
        tdvol = nm_f(sigma0, spec.abspath(ctx, spec.realpath(
            ctx, sigma0, spec.normpath(ctx, td))))
        if gate == 'SameVolume':
            ctx.oblige(prefix + '/attempt/used-only-on-the-files-own-volume',
                       z3.Implies(z3.BoolVal(mutated), tdvol == tvol.t))
        else:
            p_, v_ = environ.entry('TRASH_ENABLE_HOME_FALLBACK')
            ctx.oblige(prefix + '/attempt/home-fallback-needs-the-environment-switch',
                       z3.Implies(z3.BoolVal(mutated),
                                  z3.And(p_, v_ == SV('1'))))
        heap_frame(V, prefix + '/attempt')
        ctx.cover(prefix + '/attempt/cover-end')

    S.install(contracts, loops)
    I.call_hooks = [hook]
    S.run_paths(prefix + '/attempt', body, active=[c.key for c in contracts])
    I.call_hooks = []


# ---------------------------------------------------------------------------
# mid-level contracts (keep the attempt VC small; each has its own VC)
# ---------------------------------------------------------------------------
def fmt_hook(I_, fv, vals):
    if fv.qualname == 'format_trashinfo':
        I_.ctx.ghost['fmt_args'] = vals


class MakeCandidateDirs(Contract):
    """TrashDirCreator.make_candidate_dirs(candidate): mkdir -p 0700 of the
    trash dir, files/ and info/, nothing else; Left on failure"""
    module = 'trashcli.put.janitor_tools.trash_dir_creator'
    qualname = 'TrashDirCreator.make_candidate_dirs'

    def setup(self, V):
        o = put_objects(V)
        return {'self': o['janitor'].attrs['dir_creator'],
                'candidate': candidate_of(V)}

    def post(self, V, a, out):
        ctx = V.ctx
        fs = fs_of(V.I)
        td = T(a['candidate'].items[0])
        want = [td, spec.join(td, SV('files'), ctx=ctx),
                spec.join(td, SV('info'), ctx=ctx)]
        res = []
        evs = fs.events
        res.append(('only-makedirs-events',
                    z3.BoolVal(all(e.op == 'makedirs' for e in evs)
                               and len(evs) <= 3)))
        for i, e in enumerate(evs[:3]):
            if e.op == 'makedirs':
                res.append(('trash-dir-skeleton-created-private-0700',
                            z3.And(e.args[0] == want[i],
                                   T(e.args[1]) == 0o700)))
        right = out[1].cls.name == 'Right'
        if right:
            res.append(('right-means-all-three-were-made',
                        z3.BoolVal(len(evs) == 3)))
        return res

    def apply(self, V, a):
        fs = fs_of(V.I)
        ctx = V.ctx
        td = T(a['candidate'].items[0])
        d = ctx.choose(1 if fs.fault_free else 2, 'make-dirs')
        pre, post = fs.step([td])
        fs.record(Event('make-dirs', [td], d == 0, pre=pre, post=post))
        E = 'trashcli.put.core.either'
        if d == 0:
            return V.I.call(V.I.lookup(E, 'Right'), [None], {})
        reason = V.I.call(V.I.lookup(self.module, 'TrashDirCannotBeCreated'),
                          [fsmodel.os_error(V.I, 'makedirs', a['candidate'].items[0])], {})
        return V.I.call(V.I.lookup(E, 'Left'), [reason], {})


class MakeTrashinfoData(Contract):
    """TrashInfoCreator.make_trashinfo_data(path, candidate): Right with the
    spec-conformant content for the entry's location and the current time,
    named after the location's base name, for the candidate's info dir; Left
    (never an exception) when the location cannot be computed or encoded"""
    module = 'trashcli.put.janitor_tools.info_creator'
    qualname = 'TrashInfoCreator.make_trashinfo_data'

    def setup(self, V):
        o = put_objects(V)
        ctx = V.ctx
        path = arg_str('path')
        V.ctx.ghost['fmt_args'] = None
        if fmt_hook not in V.I.call_hooks:
            V.I.call_hooks = V.I.call_hooks + [fmt_hook]
        cand = candidate_of(V, shapes=False)
        # the candidate's volume is a volume_of result: '/' or absolute
        # without trailing slash
        vol = T(cand.items[1])
        if ctx.choose(2, 'vol-is-root') == 0:
            ctx.assume(vol == SV('/'))
            cls = V.I.lookup('trashcli.put.core.candidate', 'Candidate')
            cand = V.I.call(cls, [cand.items[0], '/'] + list(cand.items[2:]), {})
        else:
            ctx.assume(z3.And(vol != SV(''), z3.PrefixOf(SV('/'), vol),
                              z3.Not(z3.SuffixOf(SV('/'), vol))))
            spec.mark_noendslash(ctx, vol)
        return {'self': o['janitor'].attrs['info_dir'], 'path': path,
                'candidate': cand}

    def pre(self, V, a):
        np_ = spec.normpath(V.ctx, T(a['path']))
        return [z3.Not(ShouldSkip.spec(V.ctx, T(a['path']))),
                T(a['path']) != SV(''),
                np_ != SV('/'), np_ != SV('//')]

    def post(self, V, a, out):
        ctx = V.ctx
        fs = fs_of(V.I)
        r = out[1]
        res = [('reads-only', z3.BoolVal(not fs.events))]
        if r.cls.name != 'Right':
            return res
        data = r.attrs['_value']
        base, content, info_dir = data.items
        td = T(a['candidate'].items[0])
        ff = ctx.ghost.get('for_file')
        fa = ctx.ghost.get('fmt_args')
        if ff is None or fa is None:
            return res + [('uses-for_file-and-format_trashinfo',
                           z3.BoolVal(False))]
        loc = T(fa['original_location'])
        res.append(('info-is-named-after-the-entry',
                    T(base) == ff['base']))
        res.append(('info-dir-of-the-candidate',
                    T(info_dir) == spec.join(td, SV('info'), ctx=ctx)))
        res.append(('content-is-the-spec-text-for-the-location-and-now',
                    content.t == trashinfo_text(loc, fa['deletion_date'].us)))
        pm = a['candidate'].items[2].attrs['name']
        vol = T(a['candidate'].items[1])
        if pm == 'AbsolutePaths':
            res.append(('home-trash-records-the-absolute-location',
                        loc == ff['absolute']))
        else:
            rel = ff['rel']
            if rel in (0, 1):
                res.append(('volume-trash-records-a-relative-location',
                            z3.And(z3.Not(z3.PrefixOf(SV('/'), loc)),
                                   spec.join(vol, loc, ctx=ctx) == ff['absolute'])))
            else:
                res.append(('location-outside-the-volume-stays-absolute',
                            loc == ff['absolute']))
        return res

    def apply(self, V, a):
        ctx = V.ctx
        fs = fs_of(V.I)
        E = 'trashcli.put.core.either'
        td = T(a['candidate'].items[0])
        if ctx.choose(2, 'trashinfo-data') == 1:
            reason = V.I.call(V.I.lookup(self.module,
                                         'UnableToCreateTrashInfoContent'),
                              [V.I.make_exc('OSError', 'x')], {})
            return V.I.call(V.I.lookup(E, 'Left'), [reason], {})
        np_ = spec.normpath(ctx, T(a['path']))
        base = spec.basename(ctx, np_)
        loc = ctx.fresh_str('location')
        ctx.assume(spec.basename(ctx, loc) == base)
        ctx.assume(z3.And(base != SV(''), base != SV('.'), base != SV('..')))
        spec.mark_nonempty(ctx, base)
        now = ctx.fresh_int('now')
        ctx.assume(z3.And(now >= 0, now <= DATE_MAX_US))
        text = trashinfo_text(loc, now)
        ctx.ghost['trashinfo'] = {'loc': loc, 'now': now, 'text': text,
                                  'base': base}
        cls = V.I.lookup('trashcli.put.janitor_tools.info_file_persister',
                         'TrashinfoData')
        data = V.I.call(cls, [mk(base), Sym(text, 'bytes'),
                              mk(spec.join(td, SV('info'), ctx=ctx))], {})
        return V.I.call(V.I.lookup(E, 'Right'), [data], {})


class TryTrash(Contract):
    """PutTrashDir.try_trash(path, paths): move normpath(path) to the payload
    path of the reserved info; on failure remove that info and report Left"""
    module = 'trashcli.put.janitor_tools.put_trash_dir'
    qualname = 'PutTrashDir.try_trash'

    def setup(self, V):
        o = put_objects(V)
        tf = V.I.call(V.I.lookup(
            'trashcli.put.janitor_tools.info_file_persister', 'TrashedFile'),
            [arg_str('trashinfo_path')], {})
        return {'self': o['janitor'].attrs['trash_dir'],
                'path': arg_str('path'), 'paths': tf}

    def pre(self, V, a):
        p = T(a['paths'].items[0])
        is_ti, stem = stem_of(V.ctx, p)
        return [is_ti, sane_stem(stem)]

    def post(self, V, a, out):
        ctx = V.ctx
        fs = fs_of(V.I)
        P = T(a['paths'].items[0])
        pay, _s, _t = payload_spec(ctx, P)
        np_ = spec.normpath(ctx, T(a['path']))
        res = []
        evs = fs.events
        moves = [e for e in evs if e.op == 'move']
        rms = [e for e in evs if e.op == 'remove-tree']
        res.append(('one-move-then-at-most-one-cleanup',
                    z3.BoolVal(len(moves) == 1 and evs[0].op == 'move' and
                               len(evs) == len(moves) + len(rms) and
                               len(rms) <= 1)))
        for e in moves:
            res.append(('moves-the-normalised-argument-to-the-payload-path',
                        z3.And(e.args[0] == np_, e.args[1] == pay)))
            res.append(('move-source-has-no-trailing-slash',
                        z3.Or(e.args[0] == SV('/'), e.args[0] == SV('//'),
                              z3.Not(z3.SuffixOf(SV('/'), e.args[0])))))
        for e in rms:
            res.append(('cleanup-removes-only-the-reserved-info',
                        e.args[0] == P))
        right = out[1].cls.name == 'Right'
        moved = bool(moves) and moves[0].ok
        res.append(('right-iff-moved', z3.BoolVal(right == moved)))
        if not moved and moves:
            res.append(('failed-move-is-followed-by-the-cleanup',
                        z3.Or(z3.BoolVal(len(rms) == 1),
                              fs.lkind(P, moves[0].post) == ABSENT)))
        return res

    def apply(self, V, a):
        ctx = V.ctx
        fs = fs_of(V.I)
        E = 'trashcli.put.core.either'
        P = T(a['paths'].items[0])
        pay, _s, _t = payload_spec(ctx, P)
        np_ = spec.normpath(ctx, T(a['path']))
        d = ctx.choose(1 if fs.fault_free else 4, 'try-trash')
        # 0 moved | 1 move failed cleanly, info removed | 2 move failed in the
        # cross-device fallback (partial), info removed | 3 move failed and
        # the info could not be removed either
        en = ctx.fresh_int('errno')
        ctx.assume(z3.And(en > 0, en < 200))
        if d == 2:
            ctx.assume(en == 18)
        pre, post = fs.step([np_, pay]) if d in (0, 2) else (fs.sigma, fs.sigma)
        fs.record(Event('move', [np_, pay], d == 0, errno=en, pre=pre,
                        post=post, extra={'partial': d == 2}))
        if d == 0:
            return V.I.call(V.I.lookup(E, 'Right'), [None], {})
        pre, post = fs.step([P])
        fs.record(Event('remove-tree', [P], d != 3, pre=pre, post=post))
        reason = V.I.call(V.I.lookup(self.module, 'UnableToMoveFileToTrash'),
                          [V.I.make_exc('OSError', 'x')], {})
        return V.I.call(V.I.lookup(E, 'Left'), [reason], {})


# ---------------------------------------------------------------------------
# upper levels: trash_file, trash_single, trash_each / run_put
# ---------------------------------------------------------------------------
class TrashFileIn(Contract):
    """Janitor.trash_file_in (abstract, for the callers): either the entry is
    now trashed in that candidate, or nothing changed for it (see the attempt
    VC; the cross-device residual is a known finding)"""
    module = 'trashcli.put.janitor'
    qualname = 'Janitor.trash_file_in'

    def apply(self, V, a):
        ctx = V.ctx
        ok = ctx.choose(2, 'attempt-outcome') == 0
        ctx.ghost.setdefault('attempts', []).append(
            {'candidate': a['candidate'], 'trashee': a['trashee'], 'ok': ok,
             'environ': a['environ']})
        J = V.I.lookup(self.module, 'Janitor')
        res_cls = J.attrs['Result']
        if ok:
            reason = V.I.call(V.I.lookup(self.module, 'NoLog'), [], {})
        else:
            reason = V.I.call(V.I.lookup(
                'trashcli.put.janitor_tools.trash_dir_checker',
                'HomeFallBackNotEnabled'), [], {})
        return V.I.call(res_cls, [ok, reason], {})


def make_context(V, paths, verbose=None):
    ctx = V.ctx
    mode_cls = V.I.lookup('trashcli.put.core.mode', 'Mode')
    mode = mode_cls.enum_members[ctx.choose(3, 'mode')]
    user_dir = None
    if ctx.choose(2, 'trash-dir-option') == 1:
        user_dir = arg_str('user_trash_dir')
        ctx.assume(T(user_dir) != SV(''))
    forced = None
    if ctx.choose(2, 'forced-volume') == 1:
        forced = arg_str('forced_volume')
        ctx.assume(T(forced) != SV(''))
    hf = ctx.choose(2, 'home-fallback') == 1
    if verbose is None:
        verbose = ctx.choose(3, 'verbose')
    log_data = V.I.call(V.I.lookup('trashcli.put.core.logs', 'LogData'),
                        ['trash-put', verbose], {})
    uid = arg_int('uid')
    ctx.assume(T(uid) >= 0)
    cls = V.I.lookup('trashcli.put.context', 'Context')
    return V.I.call(cls, [paths, user_dir, mode, forced, hf, 'trash-put',
                          log_data, V.I.lib.environ(), uid], {})


def stderr_lines(ctx):
    return [z3str(e[2]) for e in ctx.events
            if e[0] == 'write' and e[1] == 'stderr']


def trash_file_vc(S, prefix='put/file'):
    contracts = [TrashFileIn(), VolumeOf(), HomeTrashDirPath(), Describe(),
                 ShrinkUser()]

    def body(V):
        ctx = V.ctx
        o = put_objects(V)
        ctx.ghost['normpath_no_shape_fork'] = True
        ctx.ghost['volume_no_shape_fork'] = True
        path = arg_str('path')
        context = make_context(V, [path], verbose=0)
        fs = fs_of(V.I)
        sigma0 = fs.sigma
        fv = S.resolve('trashcli.put.file_trasher', 'FileTrasher.trash_file')
        for q in (('trashcli.put.file_trasher', 'FileTrasher._figure_out_volume'),
                  ('trashcli.put.file_trasher', 'FileTrasher._select_candidates'),
                  ('trashcli.put.fs.volume_of_parent', 'VolumeOfParent.volume_of_parent'),
                  ('trashcli.put.fs.parent_realpath', 'ParentRealpathFs.parent_realpath'),
                  ('trashcli.put.trash_directories_finder',
                   'TrashDirectoriesFinder.possible_trash_directories_for'),
                  ('trashcli.put.reporting.trash_put_reporter',
                   'TrashPutReporter.unable_to_trash_file')):
            S.note_function(*q)
        try:
            r = V.I.call_function(fv, [], {'self': o['file_trasher'],
                                           'path': path, 'context': context})
        except PyExc as pe:
            ctx.oblige(prefix + '/nothrow', z3.BoolVal(False), kind='nothrow',
                       info={'exception': pe.value.cls.name})
            return
        attempts = ctx.ghost.get('attempts', [])
        success = r.attrs['name'] == 'Success'
        ctx.oblige(prefix + '/success-iff-the-last-attempt-succeeded',
                   z3.BoolVal(success == (bool(attempts) and attempts[-1]['ok'])))
        ctx.oblige(prefix + '/next-candidate-only-after-a-failed-attempt',
                   z3.BoolVal(all(not a['ok'] for a in attempts[:-1])))
        forced = context.items[3]
        np_ = spec.normpath(ctx, path.t)
        want_vol = nm_f(sigma0, spec.abspath(ctx, spec.realpath(
            ctx, sigma0, spec.dirname(ctx, np_))))
        for a in attempts:
            tr = a['trashee']
            ctx.oblige(prefix + '/every-attempt-is-for-the-argument',
                       T(tr.items[0]) == path.t)
            if forced is None:
                ctx.oblige(prefix + '/volume-is-that-of-the-entry-parent-resolved',
                           T(tr.items[1]) == want_vol)
            else:
                ctx.oblige(prefix + '/forced-volume-is-used',
                           T(tr.items[1]) == T(forced))
        # the candidates tried are a prefix of the finder's list, in order
        kinds = [(a['candidate'].items[2].attrs['name'],
                  a['candidate'].items[3].attrs['name'],
                  a['candidate'].items[4].attrs['name']) for a in attempts]
        user_dir = context.items[1]
        if user_dir is not None:
            ctx.oblige(prefix + '/trash-dir-option-restricts-the-choice',
                       z3.And(z3.BoolVal(len(attempts) == 1),
                              *[T(a['candidate'].items[0]) == T(user_dir)
                                for a in attempts]))
        else:
            order = [('AbsolutePaths', 'NoCheck', 'SameVolume'),
                     ('RelativePaths', 'TopTrashDirCheck', 'SameVolume'),
                     ('RelativePaths', 'NoCheck', 'SameVolume'),
                     ('AbsolutePaths', 'NoCheck', 'HomeFallback')]
            idx = [order.index(k) if k in order else -1 for k in kinds]
            ctx.oblige(prefix + '/candidates-tried-in-the-prescribed-order',
                       z3.BoolVal(all(i >= 0 for i in idx) and
                                  idx == sorted(idx) and len(set(idx)) == len(idx)))
            if not context.items[4]:
                ctx.oblige(prefix + '/no-home-fallback-without-the-option',
                           z3.BoolVal(('AbsolutePaths', 'NoCheck',
                                       'HomeFallback') not in kinds))
            if not success:
                ctx.oblige(prefix + '/failure-only-after-top-and-alt-were-tried',
                           z3.BoolVal(order[1] in kinds and order[2] in kinds))
        lines = stderr_lines(ctx)
        if not success:
            named = [z3.Contains(l, path.t) for l in lines]
            ctx.oblige(prefix + '/failure-is-reported-naming-the-argument',
                       z3.Or(*named) if named else z3.BoolVal(False))
        else:
            ctx.oblige(prefix + '/success-is-silent-at-verbosity-0',
                       z3.BoolVal(len(lines) == 0))
        heap_frame(V, prefix)
        ctx.cover(prefix + '/cover-end')

    S.install(contracts)
    S.run_paths(prefix, body, active=[c.key for c in contracts])


class TrashFile(Contract):
    module = 'trashcli.put.file_trasher'
    qualname = 'FileTrasher.trash_file'

    def apply(self, V, a):
        ctx = V.ctx
        ok = ctx.choose(2, 'trash-file-outcome') == 0
        ctx.ghost.setdefault('trash_file_calls', []).append((a['path'], ok))
        R = V.I.lookup('trashcli.put.core.trash_result', 'TrashResult')
        if not ok:
            # the callee reports its own failure (trash_file VC)
            ctx.events.append(('write', 'stderr', mk(z3.Concat(
                SV("trash-put: cannot trash entry '"), T(a['path']), SV("'\n")))))
        return R.attrs['Success' if ok else 'Failure']


class ShrinkUser(Contract):
    """Candidate.shrink_user(environ): some text for messages (regex based).
    ABSTRACTED."""
    module = 'trashcli.put.core.candidate'
    qualname = 'Candidate.shrink_user'

    raises = ()

    def setup(self, V):
        V.ctx.ghost['normpath_no_shape_fork'] = True
        return {'self': candidate_of(V, shapes=False), 'environ': V.I.lib.environ()}

    def post(self, V, a, out):
        # C16: the message text is built after EVERY successful trash; it
        # must exist for every HOME (no exception: checked as nothrow)
        return [('a-text-for-every-home-directory', z3.BoolVal(out[0] == 'return'))]

    def apply(self, V, a):
        return Sym(V.ctx.fresh_str('shrunk'), 'str')


class PutInput(purge.ReadInput):
    pass


def trash_single_vc(S, prefix='put/single'):
    contracts = [ShouldSkip(), TrashFile(), Describe(), PutInput()]

    def body(V):
        ctx = V.ctx
        o = put_objects(V)
        path = arg_str('path')
        context = make_context(V, [path], verbose=0)
        mode = context.items[2].attrs['name']
        fs = fs_of(V.I)
        fs.mutation_allowed = False       # only trash_file may mutate
        present = fs.lkind(path.t) != ABSENT
        skip = ShouldSkip.spec(ctx, path.t)
        fv = S.resolve('trashcli.put.trasher', 'Trasher.trash_single')
        for q in (('trashcli.put.core.mode', 'Mode.can_ignore_not_existent_path'),
                  ('trashcli.put.core.mode', 'Mode.should_we_ask_to_the_user'),
                  ('trashcli.put.user', 'User.ask_user_about_deleting_file'),
                  ('trashcli.put.user', 'parse_user_reply'),
                  ('trashcli.put.fs.real_fs', 'RealFs.lexists'),
                  ('trashcli.put.fs.real_fs', 'RealFs.is_accessible')):
            S.note_function(*q)
        try:
            r = V.I.call_function(fv, [], {'self': o['trasher'], 'path': path,
                                           'context': context})
        except PyExc as pe:
            ok = pe.value.cls.name in ('EOFError', 'KeyboardInterrupt')
            ctx.oblige(prefix + '/nothrow', z3.BoolVal(ok), kind='nothrow',
                       info={'exception': pe.value.cls.name})
            return
        success = r.attrs['name'] == 'Success'
        calls = ctx.ghost.get('trash_file_calls', [])
        replies = ctx.ghost.get('replies', [])
        lines = stderr_lines(ctx)
        named = z3.Or(*[z3.Contains(l, path.t) for l in lines]) if lines \
            else z3.BoolVal(False)
        ctx.oblige(prefix + '/dot-entries-are-refused-before-anything-is-touched',
                   z3.Implies(skip, z3.BoolVal(not success and not calls
                                               and not replies)))
        ctx.oblige(prefix + '/presence-is-decided-by-lstat',
                   z3.Implies(z3.And(z3.Not(skip), z3.Not(present)),
                              z3.BoolVal(not calls and
                                         success == (mode == 'mode_force'))))
        ctx.oblige(prefix + '/an-existing-entry-is-trashed-unless-declined',
                   z3.Implies(z3.And(z3.Not(skip), present),
                              z3.BoolVal(len(calls) == 1 or (
                                  mode == 'mode_interactive' and len(replies) == 1
                                  and not calls and success))))
        if calls:
            ctx.oblige(prefix + '/result-is-the-result-of-trashing-that-argument',
                       z3.And(T(calls[0][0]) == path.t,
                              z3.BoolVal(success == calls[0][1]
                                         and len(calls) == 1)))
        if replies and not calls:
            yes = z3.PrefixOf(SV('y'), spec.lower_f(replies[-1]))
            ctx.oblige(prefix + '/declined-only-on-a-non-yes-reply', z3.Not(yes))
        if replies and calls:
            yes = z3.PrefixOf(SV('y'), spec.lower_f(replies[-1]))
            ctx.oblige(prefix + '/asked-and-trashed-only-on-a-yes-reply', yes)
        if not success:
            ctx.oblige(prefix + '/every-failure-is-reported-naming-the-argument',
                       named)
        heap_frame(V, prefix)
        ctx.cover(prefix + '/cover-end')

    S.install(contracts)
    S.run_paths(prefix, body, active=[c.key for c in contracts])


class TrashSingle(Contract):
    module = 'trashcli.put.trasher'
    qualname = 'Trasher.trash_single'

    def apply(self, V, a):
        ctx = V.ctx
        ok = ctx.choose(2, 'single-outcome') == 0
        ctx.ghost.setdefault('single_calls', []).append(
            (a['path'], ok, a['context']))
        R = V.I.lookup('trashcli.put.core.trash_result', 'TrashResult')
        return R.attrs['Success' if ok else 'Failure']


class PutParser(Contract):
    """Parser.parse_args (argparse): ASSUMED to deliver the options; the file
    list is an arbitrary list of 0..3 arguments in the VC (BOUNDED length)"""
    module = 'trashcli.put.parser'
    qualname = 'Parser.parse_args'

    def apply(self, V, a):
        ctx = V.ctx
        n = ctx.choose(4, 'n-args')
        files = [Sym(z3.String('arg.file%d' % i), 'str') for i in range(n)]
        mode_cls = V.I.lookup('trashcli.put.core.mode', 'Mode')
        mode = mode_cls.enum_members[ctx.choose(3, 'mode')]
        cls = V.I.lookup(self.module, 'Trash')
        ctx.ghost['files'] = files
        t = V.I.call(cls, [], {
            'type': cls, 'program_name': 'trash-put', 'options': None,
            'files': files, 'trash_dir': None, 'mode': mode,
            'forced_volume': None, 'verbose': 0, 'home_fallback': False})
        return t


TRASH_EACH_LOOP = ('trashcli.put.context', 'Context.trash_each', 0)


class PutParserAnyLength(PutParser):
    """as PutParser, but the operand list is a sequence of ARBITRARY length
    >= 1 (Parser.parse_args returns ExitWithCode for no operand: option VC)"""

    def apply(self, V, a):
        ctx = V.ctx
        n = z3.Int('arg.nfiles')
        ctx.assume(n >= 1)
        f = z3.Function('arg.file', z3.IntSort(), z3.StringSort())
        files = SymSeq(n, lambda i: f(i if z3.is_expr(i) else z3.IntVal(i)),
                       ('argv-files',))
        mode_cls = V.I.lookup('trashcli.put.core.mode', 'Mode')
        mode = mode_cls.enum_members[ctx.choose(3, 'mode')]
        cls = V.I.lookup(self.module, 'Trash')
        ctx.ghost['files_seq'] = files
        return V.I.call(cls, [], {
            'type': cls, 'program_name': 'trash-put', 'options': None,
            'files': files, 'trash_dir': None, 'mode': mode,
            'forced_volume': None, 'verbose': 0, 'home_fallback': False})


def trash_each_loop_annot(prefix):
    """for path in self.paths: inductive invariant 'failed_paths is non-empty
    iff some argument so far failed' (ghost any_failed accumulates the
    outcomes trash_single's contract hands out); per iteration exactly one
    trash_single call, for that argument, with this context"""
    def seq_len(v):
        if isinstance(v, SymSeq):
            return v.length
        return z3.IntVal(len(v))

    def invariant(I_, env, seq, i):
        ctx = I_.ctx
        af = ctx.ghost.setdefault('any_failed', z3.BoolVal(False))
        return [('failed-list-non-empty-iff-an-argument-failed-so-far',
                 (seq_len(env.vars['failed_paths']) > 0) == af)]

    def havoc_ghost(I_, env):
        I_.ctx.ghost['any_failed'] = I_.ctx.fresh_bool('any_failed')

    def on_element(I_, env, seq, i, x):
        I_.ctx.ghost['single_mark'] = len(I_.ctx.ghost.get('single_calls', []))
        return None

    def at_end(I_, env, seq, i, x):
        ctx = I_.ctx
        calls = ctx.ghost.get('single_calls', [])[ctx.ghost['single_mark']:]
        ctx.oblige(prefix + '/each-argument-is-handled-by-exactly-one-trash_single-call',
                   z3.BoolVal(len(calls) == 1))
        if len(calls) != 1:
            return
        path, ok, context = calls[0]
        ctx.oblige(prefix + '/the-call-is-for-this-argument-with-the-same-options',
                   z3.And(T(path) == T(x), z3.BoolVal(context is env.vars['self'])))
        ctx.ghost['any_failed'] = z3.Or(ctx.ghost['any_failed'], z3.BoolVal(not ok))

    return LoopAnnot(invariant=invariant, types={'failed_paths': 'seq'},
                     keep={'result'}, havoc_ghost=havoc_ghost,
                     on_element=on_element, at_iteration_end=at_end)


def run_put_any_length_vc(S, prefix='put/run-any-length'):
    """exit status over argument lists of EVERY length (loop cut at the
    invariant of Context.trash_each)"""
    contracts = [TrashSingle(), PutParserAnyLength()]
    loops = {TRASH_EACH_LOOP: trash_each_loop_annot(prefix)}

    def body(V):
        ctx = V.ctx
        o = put_objects(V)
        fv = S.resolve('trashcli.put.trash_put_cmd', 'TrashPutCmd.run_put')
        S.note_function('trashcli.put.context', 'Context.trash_each')
        S.note_function('trashcli.put.reporting.trash_put_reporter',
                  'TrashPutReporter.exit_code')
        S.note_function('trashcli.put.core.trash_all_result',
                  'TrashAllResult.any_failure')
        uid = arg_int('uid')
        try:
            code = V.I.call_function(fv, [], {
                'self': o['cmd'], 'argv': ['trash-put'],
                'environ': V.I.lib.environ(), 'uid': uid})
        except PyExc as pe:
            ctx.oblige(prefix + '/nothrow', z3.BoolVal(False), kind='nothrow',
                       info={'exception': pe.value.cls.name})
            return
        ctx.oblige(prefix + '/nothrow', z3.BoolVal(True), kind='nothrow')
        af = ctx.ghost.get('any_failed', z3.BoolVal(False))
        ctx.oblige(prefix + '/exit-status-0-iff-no-argument-failed',
                   z3.And(z3.BoolVal(isinstance(code, int) and not isinstance(code, bool)),
                          z3.BoolVal(code == 0) == z3.Not(af)))
        ctx.cover(prefix + '/cover-end')

    S.install(contracts, loops)
    S.run_paths(prefix, body, active=[c.key for c in contracts])


def run_put_vc(S, prefix='put/run'):
    contracts = [TrashSingle(), PutParser()]

    def body(V):
        ctx = V.ctx
        o = put_objects(V)
        fv = S.resolve('trashcli.put.trash_put_cmd', 'TrashPutCmd.run_put')
        S.note_function('trashcli.put.context', 'Context.trash_each')
        S.note_function('trashcli.put.reporting.trash_put_reporter',
                  'TrashPutReporter.exit_code')
        S.note_function('trashcli.put.core.trash_all_result',
                  'TrashAllResult.any_failure')
        uid = arg_int('uid')
        try:
            code = V.I.call_function(fv, [], {
                'self': o['cmd'], 'argv': ['trash-put'],
                'environ': V.I.lib.environ(), 'uid': uid})
        except PyExc as pe:
            ctx.oblige(prefix + '/nothrow', z3.BoolVal(False), kind='nothrow',
                       info={'exception': pe.value.cls.name})
            return
        files = ctx.ghost['files']
        calls = ctx.ghost.get('single_calls', [])
        ctx.oblige(prefix + '/every-argument-is-processed-once-in-order',
                   z3.BoolVal(len(calls) == len(files) and all(
                       c[0] is f for c, f in zip(calls, files))))
        any_fail = any(not c[1] for c in calls)
        ctx.oblige(prefix + '/exit-status-0-iff-no-argument-failed',
                   z3.BoolVal((code == 0) == (not any_fail) and
                              isinstance(code, int)))
        same_ctx = all(c[2] is calls[0][2] for c in calls) if calls else True
        ctx.oblige(prefix + '/same-options-for-every-argument',
                   z3.BoolVal(same_ctx))
        ctx.cover(prefix + '/cover-end')

    S.install(contracts)
    S.run_paths(prefix, body, active=[c.key for c in contracts])



def leaf_vcs(S):
    """verify the body of every contract the put VCs rely on"""
    S.install([VolumeOf(), HomeTrashDirPath(), MkdirP(), ForFile(), PutMove(),
               PutRemoveFile()],
              loops={trashdirs.VOLUME_OF_LOOP: trashdirs.volume_of_loop_annot()})
    act = [VolumeOf().key, HomeTrashDirPath().key]
    S.verify(ShouldSkip())
    S.verify(AtomicWrite())
    S.verify(MkdirP())
    S.verify(PutMove())
    S.verify(PutRemoveFile())
    S.verify(ForFile())
    S.lemma('put/lemma/rest-of-a-clean-path', lemma_rest_of_clean_path)
    S.lemma('put/lemma/joining-keeps-dotdot-out', lemma_join_keeps_dotdot_out)
    S.verify(CreateTrashinfoBasename())
    S.verify(purge.PathOfBackupCopy())
    S.verify(trashdirs.VolumeOf())
    S.verify(trashdirs.HomeTrashDirPath())
    S.verify(SecurityCheckC())
    S.verify(Finder(), active=act)
    S.verify(MakeCandidateDirs(), active=[MkdirP().key])
    S.verify(MakeTrashinfoData(), active=[ForFile().key] + act)
    S.verify(TryTrash(), active=[PutMove().key, PutRemoveFile().key])
    S.verify(ShrinkUser())
    S.verify(purge.ReadInputBody())
    return act
