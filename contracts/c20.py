"""C20: all commands read a trash directory the same way."""
import os
import z3
from . import purge, restore, readers, dates, trashdirs, options

PROPERTY = 'C20'
LEVEL_NOTE = ('relational: every reader is proved against the SAME spec terms '
              '- location = join(V, unquote(first Path= line)), date = first '
              'DeletionDate= line - for every content (list-reader, '
              'restore-reader, rm monitor, ok_to_delete), and the volume V '
              'each command pairs with each kind of trash directory is proved '
              '(scanner VC vs restore-dirs VC).  The home-trash base differs '
              'between restore and the others on the pinned tree: known '
              'finding KF-C20-home-volume.')
EXPECTED = [
    'list-action/every-message-is-printed-exactly-once',
    'list-options/trash-dirs-are-the-option-values-in-order',
    'list-options/attribute-is-the-date-unless-size',
    'list-options/action-is-listing-unless-the-last-action-flag-says-otherwise',
    'trashcli.parse_trashinfo.parse_path.parse_path/post/first-Path-line-unquoted',
    'trashcli.parse_trashinfo.parse_path.parse_path/post/decoder-is-unquote',
    'trashcli.parse_trashinfo.parse_deletion_date.parse_deletion_date/post/',
    'trashcli.parse_trashinfo.maybe_parse_deletion_date.maybe_parse_deletion_date/post/',
    'list-reader/line-is-date-space-absolute-path',
    'restore-reader/location-is-volume-joined-with-first-Path',
    'restore-reader/date-is-first-DeletionDate',
    'rm/removed-iff-original-name-matches',
    'trashcli.empty.delete_according_date.DeleteAccordingDate.ok_to_delete/post/purge-iff-strictly-older',
    'scanner/top-trash-dir-paired-with-its-volume',
    'scanner/alt-trash-dir-is-dot-Trash-uid-of-the-volume',
    'scanner-home/home-trash-is-found-and-paired-with-root',
    'restore-dirs/top-paired-with-the-volume',
    'restore-dirs/alt-is-dot-Trash-uid-paired-with-the-volume',
    'restore-dirs/trash-dir-option-paired-with-its-volume',
    'restore-home/home-trash-base-agrees-with-the-scanner',
]


def build(S, tier, seed):
    S.install(loops={trashdirs.VOLUME_OF_LOOP: trashdirs.volume_of_loop_annot()})
    purge.leaf_vcs(S)
    S.verify(trashdirs.VolumeOf())
    S.verify(trashdirs.HomeTrashDirPath())
    S.verify(trashdirs.ValidToBeRead())
    readers.list_reader_vc(S)
    readers.restore_reader_vc(S)
    purge.rm_vc(S)
    trashdirs.scanner_vc(S)
    trashdirs.scanner_home_vc(S)
    trashdirs.restore_dirs_vc(S)
    trashdirs.restore_home_vc(S)
    # --trash-dir: list/empty pair it with volume_of(dir) through the
    # selector; restore through TrashDirectories2 (proved above)
    selector_cli_vc(S)
    options.list_options_vc(S)
    readers.list_action_vc(S)


def selector_cli_vc(S, prefix='selector'):
    """TrashDirsSelector.select with --trash-dir: each given directory paired
    with volume_of(directory), nothing scanned"""
    from pyvc.fsmodel import fs_of
    from pyvc import spec
    from .common import T, arg_str, arg_int, wire

    def body(V):
        ctx = V.ctx
        c = wire(V, 'trashcli.list.main', 'trashcli.list.main', 'ListCmd.run')
        sel = c['self'].attrs['selector']
        fs = fs_of(V.I)
        d = arg_str('trash_dir')
        fv = S.resolve('trashcli.list.trash_dir_selector',
                       'TrashDirsSelector.select')
        g = V.I.call_function(fv, [], {
            'self': sel, 'all_users_flag': False, 'user_specified_dirs': [d],
            'environ': V.I.lib.environ(), 'uid': arg_int('uid')})
        evs = list(V.I.iterate(g))
        ctx.oblige(prefix + '/trash-dir-option-restricts-to-that-directory',
                   z3.BoolVal(len(evs) == 1))
        for e in evs:
            ctx.oblige(prefix + '/trash-dir-option-paired-with-its-volume',
                       z3.And(z3.BoolVal(trashdirs._event_name(e) == 'trash_dir_found'),
                              T(e[1].items[0]) == T(d),
                              T(e[1].items[1]) == trashdirs.nm_f(
                                  fs.sigma, spec.abspath(ctx, T(d)))))
    S.install([trashdirs.VolumeOf()])
    S.run_paths(prefix, body, active=[trashdirs.VolumeOf().key])


def home_volume_battery(repo):
    """native witness of the home-volume finding needs a real mount: a tmpfs
    in a private mount namespace"""
    import subprocess, tempfile, json, textwrap
    script = textwrap.dedent('''
        set -e
        mkdir -p /tmp/pyvc-c20 && mount -t tmpfs none /tmp/pyvc-c20
        mkdir -p /tmp/pyvc-c20/homevol && mount -t tmpfs none /tmp/pyvc-c20/homevol
        T=/tmp/pyvc-c20/homevol/data/Trash
        mkdir -p $T/info $T/files /tmp/pyvc-c20/homevol/u/docs
        printf '[Trash Info]\\nPath=u/docs/rel\\nDeletionDate=2000-01-01T00:00:00\\n' > $T/info/rel.trashinfo
        echo x > $T/files/rel
        export HOME=/tmp/pyvc-c20/homevol XDG_DATA_HOME=/tmp/pyvc-c20/homevol/data TRASH_VOLUMES=/tmp/pyvc-c20/none
        echo LIST; %(py)s %(repo)s/trash-list
        echo RESTORE; cd /; echo | %(py)s %(repo)s/trash-restore / 2>&1 | head -3
    ''') % {'py': '/venv/bin/python', 'repo': repo}
    try:
        p = subprocess.run(['unshare', '-m', 'bash', '-c', script],
                           capture_output=True, text=True, timeout=60,
                           env=dict(os.environ, PYTHONPATH=repo))
    except Exception as e:
        return {'confirmed': False, 'note': 'unshare failed: %r' % (e,)}
    out = p.stdout
    listed = [l for l in out.split('RESTORE')[0].split('\n') if 'rel' in l]
    offered = [l for l in out.split('RESTORE')[-1].split('\n') if 'rel' in l]
    lp = listed[0].split(' ', 2)[-1] if listed else None
    rp = offered[0].split()[-1] if offered else None
    return {'confirmed': bool(lp and rp and lp != rp), 'trash_list_shows': lp,
            'trash_restore_offers': rp, 'stderr': p.stderr[-500:],
            'scenario': 'home trash on its own tmpfs volume, relative Path='}


VARIANTS = [
    ('plain', '[Trash Info]\nPath=/o/plain\nDeletionDate=2000-01-02T03:04:05\n'),
    ('twopaths', '[Trash Info]\nPath=/o/first\nPath=/o/second\nDeletionDate=2000-01-02T03:04:05\n'),
    ('twodates', '[Trash Info]\nPath=/o/twodates\nDeletionDate=2001-01-01T00:00:00\nDeletionDate=2000-01-02T03:04:05\n'),
    ('badfirstdate', '[Trash Info]\nPath=/o/badfirst\nDeletionDate=2000-01-02T03:04:05+01:00\nDeletionDate=2000-01-02T03:04:05\n'),
    ('noheader', 'Path=/o/noheader\nDeletionDate=2000-01-02T03:04:05\n'),
    ('extrakeys', '[Trash Info]\nFoo=bar\nPath=/o/extra\n[Other]\nX=1\nDeletionDate=2000-01-02T03:04:05\n'),
    ('escapes', '[Trash Info]\nPath=/o/a%20b%2Bc+d%25e\nDeletionDate=2000-01-02T03:04:05\n'),
    ('dateonly', '[Trash Info]\nPath=/o/dateonly\nDeletionDate=2000-01-02\n'),
    ('nodate', '[Trash Info]\nPath=/o/nodate\n'),
    ('pathafterdate', '[Trash Info]\nDeletionDate=2000-01-02T03:04:05\nPath=/o/after\n'),
]


def reader_agreement_battery(repo):
    """bounded differential: for foreign .trashinfo variants, the path/date
    trash-list prints are what trash-restore offers, what trash-rm matches
    and what trash-empty DAYS compares"""
    from pyvc.scenario import Sandbox
    problems = []
    for name, content in VARIANTS:
        with Sandbox(repo) as sb:
            td = os.path.join(sb.home, '.local', 'share', 'Trash')
            sb.add_entry(td, name, raw_info=content.encode())
            env = {'TRASH_VOLUMES': sb.path('vol'), 'TRASH_DATE': '2020-01-01T00:00:00'}
            lst = sb.run('trash-list', [], env=env)
            lines = [l for l in lst['stdout'].split('\n') if l]
            if len(lines) != 1:
                problems.append('%s: trash-list printed %r' % (name, lines))
                continue
            d, t, path = lines[0].split(' ', 2)
            rs = sb.run('trash-restore', ['/'], env=env, stdin='\n', cwd='/')
            offered = [l.strip() for l in rs['stdout'].split('\n') if l.strip()[:1].isdigit()]
            if len(offered) != 1:
                problems.append('%s: trash-restore offered %r' % (name, offered))
            else:
                _i, rest = offered[0].split(' ', 1)
                want_date = 'None' if d.startswith('????') else '%s %s' % (d, t)
                if rest != '%s %s' % (want_date, path):
                    problems.append('%s: list shows %r, restore offers %r' % (
                        name, lines[0], offered[0]))
            # trash-empty DAYS: purged iff the date list shows is old enough
            em = sb.run('trash-empty', ['-f', '30'], env=env)
            gone = 'info/%s.trashinfo' % name not in sb.snapshot(td)
            old = not d.startswith('????') and d < '2019-12-02'
            if gone != old:
                problems.append('%s: list date %s %s but trash-empty 30 purged=%s'
                                % (name, d, t, gone))
            if not gone:
                rm = sb.run('trash-rm', [path], env=env)
                if 'info/%s.trashinfo' % name in sb.snapshot(td):
                    problems.append('%s: trash-rm %r did not match the path '
                                    'trash-list shows' % (name, path))
    return {'confirmed': bool(problems), 'problems': problems[:10]}


def _battery(S, r, o):
    return reader_agreement_battery(S.interp.repo)


def _home(S, r, o):
    return home_volume_battery(S.interp.repo)


REPLAYERS = {'restore-home/home-trash-base-agrees-with-the-scanner': _home,
             '': _battery}


def kf_home_on_own_volume(terms):
    """witness class of KF-C20-home-volume: the home trash directory is not
    on the root volume"""
    return terms['home_volume'] != z3.StringVal('/')


KF_CLASSES = {'home-trash-not-on-root-volume': kf_home_on_own_volume}


def finalize_args(S, tier, seed):
    return {'extra_assumptions': [
        'all commands are given the same set of volumes (TRASH_VOLUMES / '
        'mount table): list_volumes and list_mount_points are assumed '
        'contracts (psutil is not modelled)',
        'CRLF, trailing spaces, unknown keys/sections: consequences of "first '
        'line with the prefix, rest of the line un-escaped", the same function '
        'for every reader']}
