"""C01: trash-put conserves data: each argument ends fully trashed or
untouched."""
from . import put, trashdirs, purge, scenarios, options

PROPERTY = 'C01'

def _base(S):
    S.install([trashdirs.VolumeOf(), trashdirs.HomeTrashDirPath(), put.MkdirP(),
               put.ForFile(), put.PutMove(), put.PutRemoveFile()],
              loops={trashdirs.VOLUME_OF_LOOP: trashdirs.volume_of_loop_annot()})
    return [trashdirs.VolumeOf().key, trashdirs.HomeTrashDirPath().key]

LEVEL_NOTE = ('typestate monitor over every path of Janitor.trash_file_in (all '
              'candidates kinds, trash-dir spellings, fs states, fault outcomes, '
              'any number of name collisions through the loop invariant): '
              'success = exactly one info created exclusively then the entry '
              'moved to its payload path; failure = nothing moved/copied/deleted '
              'and the reservation removed; contracts of should_skipped_by_specs, '
              'atomic_write, RealFs.move, remove_file, try_trash, '
              'make_candidate_dirs, make_trashinfo_data; trash_file / '
              'trash_single compositions')
EXPECTED = [
    'put-options/mode-is-the-last-of-f-and-i',
    'put-options/home-fallback-only-with-its-flag',
    'put-options/trash-dir-is-the-last-trash-dir-value',
    'put-options/files-are-the-operands-in-order',
    'put-options/no-file-operand-is-a-usage-error-with-non-zero-exit',
    'trashcli.put.core.trashee.should_skipped_by_specs/post/dot-entries-in-every-spelling',
    'trashcli.fs.RealAtomicWrite.atomic_write/post/failure-leaves-no-file-behind',
    'trashcli.put.fs.real_fs.RealFs.move/post/fallback-only-after-EXDEV',
    'trashcli.put.fs.real_fs.RealFs.move/post/failure-means-not-moved',
    'trashcli.put.janitor_tools.put_trash_dir.PutTrashDir.try_trash/post/right-iff-moved',
    'trashcli.put.janitor_tools.put_trash_dir.PutTrashDir.try_trash/post/failed-move-is-followed-by-the-cleanup',
    'put/attempt/success-means-trashed',
    'put/attempt/failure-leaves-the-source-untouched',
    'put/attempt/failure-leaves-no-reservation-behind',
    'put/monitor/move-only-after-the-info-is-written',
    'put/monitor/move-destination-is-the-payload-of-the-info',
    'put/monitor/only-the-own-reservation-is-removed',
    'put/file/success-iff-the-last-attempt-succeeded',
    'put/file/next-candidate-only-after-a-failed-attempt',
    'put/single/dot-entries-are-refused-before-anything-is-touched',
    'put/single/result-is-the-result-of-trashing-that-argument',
]


def build(S, tier, seed):
    act = put.leaf_vcs(S)
    put.trash_file_in_vc(S)
    put.trash_file_vc(S)
    put.trash_single_vc(S)
    options.put_options_vc(S)


def _battery(S, r, o):
    a = scenarios.put_spellings_battery(S.interp.repo)
    b = scenarios.put_faults_battery(S.interp.repo)
    c = scenarios.put_volumes_battery(S.interp.repo)
    d = scenarios.put_xdev_battery(S.interp.repo, 'move')
    return {'confirmed': a['confirmed'] or b['confirmed'] or c['confirmed']
            or d['confirmed'],
            'problems': (a['problems'] + b['problems'] + c['problems'] +
                         d.get('problems', []))[:12],
            'spellings': a, 'faults': b, 'volumes': c, 'cross_device': d}


REPLAYERS = {
    'trashcli.put.core.trashee.should_skipped_by_specs': put.should_skip_replayer(),
    'trashcli.fs.RealAtomicWrite.atomic_write': lambda S, r, o: scenarios.put_faults_battery(
        S.interp.repo, [('write', 28), ('close', 5)]),
    'trashcli.put.fs.real_fs.RealFs.move': lambda S, r, o: scenarios.merge_batteries(
        scenarios.put_faults_battery(
            S.interp.repo, [('rename', 16), ('rename', 22), ('rename', 13)]),
        scenarios.put_xdev_battery(S.interp.repo, 'move')),
    '': _battery}


def kf_cross_device(terms):
    """witness class of KF-put-cross-device: the failed attempt went through
    the copy+delete fallback of a cross-device (EXDEV) rename"""
    return terms['rename_errno'] == 18


KF_CLASSES = {'rename-failed-with-EXDEV': kf_cross_device}


def finalize_args(S, tier, seed):
    return {'extra_assumptions': [
        'bytes, tree, link targets, modes, mtimes are preserved by rename(2) '
        '(same inode) and by shutil copytree/copy2 (axioms about the OS)',
        'the argument is not the root directory; TRASH_PUT_FAKE_UID_FOR_TESTING unset',
        'a stray .trashinfo can remain only if its own removal fails after the '
        'move failed (double fault on the same file: unavoidable)']}
