"""Shared helpers for the sidecar contracts."""
import z3

from pyvc import spec
from pyvc.values import (EnumMember, Obj, Sym, SymDict, SymSeq, TupleObj, mk,
                         z3bool, z3int, z3str, is_sym, PyExc)
from pyvc.libmodels import DateV, DeltaV, DATE_MAX_US, DAY_US

SV = z3.StringVal


def arg_str(name):
    return Sym(z3.String('arg.' + name), 'str')


def arg_int(name):
    return Sym(z3.Int('arg.' + name), 'int')


def arg_bool(name):
    return Sym(z3.Bool('arg.' + name), 'bool')


def arg_date(V, name):
    us = z3.Int('arg.' + name)
    V.ctx.assume(z3.And(us >= 0, us <= DATE_MAX_US))
    return DateV(us)


def T(v):
    """z3 term of an interpreter value (str/int/bool)"""
    if isinstance(v, Sym):
        return v.t
    if isinstance(v, bool):
        return z3.BoolVal(v)
    if isinstance(v, int):
        return z3.IntVal(v)
    if isinstance(v, str):
        return z3.StringVal(v)
    raise TypeError('no term for %r' % (v,))


def is_none(v):
    return v is None


def enum_member(V, module, clsname, member):
    cls = V.I.lookup(module, clsname)
    return cls.attrs[member]


def instance(V, module, qualname, *args, **kwargs):
    cls = V.I.lookup(module, qualname)
    return V.I.call(cls, list(args), kwargs)


def returned(outcome):
    return outcome[0] == 'return'


def raised(V, outcome, clsname):
    return outcome[0] == 'raise' and V.exc_is(outcome[1], clsname)


# --- spec: first line (of str.split('\n')) with a prefix --------------------
# first_line_with_prefix(contents, k, prefix): least index >= k of a line of
# contents.split('\n') starting with prefix, or -1.
fwp_f = z3.Function('first_line_with_prefix', z3.StringSort(), z3.IntSort(),
                    z3.StringSort(), z3.IntSort())
NL = SV('\n')


def nlines(c):
    return spec.split_len_f(c, NL)


def line(c, i):
    return spec.split_at_f(c, NL, i if z3.is_expr(i) else z3.IntVal(i))


def fwp(c, k, prefix):
    return fwp_f(c, k if z3.is_expr(k) else z3.IntVal(k), SV(prefix))


def unfold_fwp(ctx, c, k, prefix):
    """one unfolding of the recursive definition at index k"""
    p = SV(prefix)
    k = k if z3.is_expr(k) else z3.IntVal(k)
    ctx.used_axioms.add('spec function first_line_with_prefix: recursive '
                        'definition, unfolded once at named indices')
    ctx.assume(fwp_f(c, k, p) == z3.If(
        k >= nlines(c), z3.IntVal(-1),
        z3.If(z3.PrefixOf(p, line(c, k)), k, fwp_f(c, k + 1, p))))


# --- real wiring: run the command's main() and capture the object graph ------
class _Captured(Exception):
    pass


class Capture(object):
    """an interception 'contract': records the receiver of a method call made
    by main() and returns None, so that the object graph built by the real
    wiring code is what the VCs run on."""

    def __init__(self, module, qualname):
        self.module = module
        self.qualname = qualname

    @property
    def key(self):
        return (self.module, self.qualname)

    name = 'capture'

    def apply_at_call(self, interp, vals, site):
        interp.ctx.ghost['captured'] = vals
        raise _Captured()


def wire(V, main_module, capture_module, capture_qualname):
    """interpret <main_module>.main() up to the call of the captured method;
    returns the bound arguments of that call (incl. 'self')."""
    I = V.I
    cap = Capture(capture_module, capture_qualname)
    saved_c = I.contracts.get(cap.key)
    saved_a = set(I.active_contracts)
    saved_u = I.under_verification
    I.contracts[cap.key] = cap
    I.active_contracts = saved_a | {cap.key}
    I.under_verification = None
    depth = I.call_depth
    I.call_depth = 1
    try:
        main = I.lookup(main_module, 'main')
        try:
            I.call(main, [], {})
        except _Captured:
            pass
        except PyExc:
            # main() itself failed before reaching the command (e.g. a
            # non-numeric TRASH_PUT_FAKE_UID_FOR_TESTING): not a path of the VC
            from pyvc.values import PathEnd
            raise PathEnd()
    finally:
        I.call_depth = depth
        I.active_contracts = saved_a
        I.under_verification = saved_u
        if saved_c is None:
            del I.contracts[cap.key]
        else:
            I.contracts[cap.key] = saved_c
    return V.ctx.ghost.pop('captured')
