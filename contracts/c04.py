"""C04: a trashed entry is never overwritten: names stay unique, also under
concurrency."""
import z3
from . import put, trashdirs, purge, scenarios
from .common import SV

PROPERTY = 'C04'
LEVEL_NOTE = ('per process: the .trashinfo is created with O_CREAT|O_EXCL 0600 '
              '(flag word read from the source), a name is used only if its '
              'payload path is absent (lstat) at that moment and the exclusive '
              'create succeeded, the move targets exactly the payload path of '
              'the info just created, only the own reservation is ever removed, '
              'mkdir -p tolerates a concurrent creation; the retry loop '
              'invariant covers any number of collisions and any suffix value. '
              'Schedules: rely/guarantee - every other trash-put obeys the same '
              'guarantee (creates files/N only while owning info/N), under which '
              'these per-process facts are stable; the R/G composition and the '
              'linearisability of open(O_EXCL)/mkdir/rename are trusted, '
              'interleavings are not enumerated')
EXPECTED = [
    'trashcli.fs.RealAtomicWrite.atomic_write/post/exclusive-create-0600',
    'trashcli.fs.RealAtomicWrite.atomic_write/post/exactly-one-open',
    'trashcli.put.dir_maker.DirMaker.mkdir_p/post/error-only-if-still-not-a-directory',
    'trashcli.put.janitor_tools.info_file_persister.create_trashinfo_basename/post/',
    'put/monitor/name-skipped-unless-payload-absent',
    'put/monitor/one-reservation-at-a-time',
    'put/monitor/info-created-in-info-dir-with-trashinfo-suffix',
    'put/monitor/move-destination-is-the-payload-of-the-info',
    'put/monitor/only-the-own-reservation-is-removed',
    'trashcli.put.janitor_tools.info_file_persister.InfoFilePersister.try_persist/loop0/inv-pres/no-info-created-by-earlier-attempts',
    'trashcli.lib.path_of_backup_copy.path_of_backup_copy/pre@InfoFilePersister.try_persist',
    'put/lemma/distinct-infos-own-distinct-payloads',
]


def _injective(V):
    ctx = V.ctx
    d = z3.String('lemma.info_dir')
    n1, n2 = z3.String('lemma.name1'), z3.String('lemma.name2')
    s1, s2 = z3.String('lemma.stem1'), z3.String('lemma.stem2')
    ctx.assume(z3.And(n1 == z3.Concat(s1, SV('.trashinfo')),
                      n2 == z3.Concat(s2, SV('.trashinfo')),
                      z3.Not(z3.Contains(s1, SV('/'))),
                      z3.Not(z3.Contains(s2, SV('/'))), s1 != SV(''), s2 != SV('')))
    f = z3.String('lemma.files_dir')
    p1 = z3.Concat(f, SV('/'), s1)
    p2 = z3.Concat(f, SV('/'), s2)
    return z3.Implies(p1 == p2, n1 == n2)


def build(S, tier, seed):
    act = put.leaf_vcs(S)
    S.lemma('put/lemma/distinct-infos-own-distinct-payloads', _injective)
    put.trash_file_in_vc(S, conservation=False)


def _battery(S, r, o):
    a = scenarios.put_concurrency_battery(S.interp.repo)
    b = collisions_battery(S.interp.repo)
    return {'confirmed': a['confirmed'] or b['confirmed'], 'concurrent': a,
            'sequential': b}


def collisions_battery(repo, n=105):
    """sequential: >100 same-named entries, orphan payloads (incl. a dangling
    link) and infos without payload"""
    import os
    from pyvc.scenario import Sandbox
    problems = []
    with Sandbox(repo) as sb:
        td = sb.path('T')
        os.makedirs(os.path.join(td, 'files'))
        os.makedirs(os.path.join(td, 'info'))
        os.symlink('/nonexistent', os.path.join(td, 'files', 'same'))      # orphan link
        open(os.path.join(td, 'files', 'same_1'), 'w').write('orphan')
        open(os.path.join(td, 'info', 'same_2.trashinfo'), 'w').write(
            '[Trash Info]\nPath=/x\nDeletionDate=2000-01-01T00:00:00\n')
        before = sb.snapshot(td)
        work = sb.path('work')
        os.makedirs(work)
        for i in range(n):
            p = os.path.join(work, 'same')
            open(p, 'w').write('entry %d' % i)
            run = sb.run('trash-put', ['--trash-dir', td, 'same'], cwd=work)
            if run['exit'] != 0:
                problems.append('put %d failed: %s' % (i, run['stderr'][-200:]))
                break
        after = sb.snapshot(td)
        for k, v in before.items():
            if after.get(k) != v:
                problems.append('pre-existing %s was replaced/changed' % k)
        payloads = [k for k in after if k.startswith('files/') and k not in before]
        contents = set()
        for k in payloads:
            contents.add(open(os.path.join(td, k)).read())
            if 'info/%s.trashinfo' % k[len('files/'):] not in after:
                problems.append('%s has no info' % k)
        if len(contents) != n:
            problems.append('%d puts but %d distinct payloads' % (n, len(contents)))
    return {'confirmed': bool(problems), 'problems': problems[:10]}


REPLAYERS = {'': _battery}
KF_CLASSES = {}


def finalize_args(S, tier, seed):
    return {'extra_assumptions': [
        'rely/guarantee composition theorem and linearisability of '
        'open(O_CREAT|O_EXCL), mkdir, rename (trusted; not mechanised)',
        'a failed same-device move leaves no partial files/N (rename is atomic); '
        'the cross-device fallback is the C01 known finding',
        'true parallel execution on the kernel is not explored by the proof '
        '(the concurrency battery in the replays is a bounded witness only)']}
