"""C12: trash-rm removes exactly the entries whose original name matches."""
from . import purge, scenarios

PROPERTY = 'C12'
LEVEL_NOTE = ('Filter.matches against the glob spec (case-sensitive '
              'fnmatchcase on the base name, or on the full path for patterns '
              'starting with /), parse_path against first-Path-line, and the '
              'per-entry monitor of RmCmd.run (removed iff readable, parsable '
              'and matching; payload then info; nothing else) are discharged '
              'for every pattern, info content, listing and scanner event; '
              'what *, ?, [..] mean is the trusted fnmatchcase')
EXPECTED = [
    'trashcli.rm.filter.Filter.matches/post/glob-on-basename-or-full-path',
    'trashcli.parse_trashinfo.parse_path.parse_path/post/first-Path-line-unquoted',
    'trashcli.parse_trashinfo.parse_path.parse_path/loop0/inv-pres/',
    'rm/removed-iff-original-name-matches',
    'rm/entry-removed-whole-payload-then-info',
    'rm/reads-this-info',
    'rm/frame/removal-under-files-or-info',
    'trashcli.lib.path_of_backup_copy.path_of_backup_copy/pre@CleanableTrashcan.delete_trash_info_and_backup_copy',
]


def build(S, tier, seed):
    purge.leaf_vcs(S)
    purge.rm_vc(S)


def _battery(S, r, o):
    return scenarios.rm_pattern_battery(S.interp.repo)


REPLAYERS = {'': _battery}
KF_CLASSES = {}
