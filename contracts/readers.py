"""Per-entry reader VCs: what trash-list prints and what trash-restore offers
for an arbitrary entry of an arbitrary trash directory (C09, C19, C20, and
the read side of C02/C03)."""
import z3

from pyvc import spec, fsmodel
from pyvc.fsmodel import ABSENT, DIR, fs_of
from pyvc.vc import Contract, LoopAnnot
from pyvc.values import (Sym, mk, z3bool, z3int, z3str, PyExc, Obj, TupleObj,
                         SymSeq, PathEnd, is_sym, StrSubObj)
from pyvc.libmodels import DateV
from .common import SV, arg_str, arg_int, arg_bool, T, wire
from . import purge, dates
from .purge import (ENTRIES_LOOP, PARSE_PATH_LOOP, ParsePath, stem_of,
                    sane_stem, payload_spec, TI, shaped_path)

LIST_LOOP = ('trashcli.list.list_trash_action', 'ListTrash.list_all_trash', 0)
LISTFILES_LOOP = ('trashcli.fs', 'RealListFilesInDir.list_files_in_dir', 0)
UNKNOWN_DATE = '????-??-?? ??:??:??'


def entry_facts(ctx, info_dir, name):
    """(full info path, is_entry) for one directory entry of info/"""
    full = spec.join(info_dir, name, ctx=ctx)
    _isti, stem0 = stem_of(ctx, full)
    is_entry = z3.And(z3.SuffixOf(SV(TI), name), sane_stem(stem0))
    return full, is_entry


class ListTrashDirsForRestore(Contract):
    """TrashDirectoriesImpl.list_trash_dirs: abstracted to one arbitrary
    (trash dir, volume) pair in the reader VC; verified on its own in the
    trash-directories VC"""
    module = 'trashcli.restore.trash_directories'
    qualname = 'TrashDirectoriesImpl.list_trash_dirs'

    def apply(self, V, a):
        td = Sym(V.ctx.fresh_str('td'), 'str')
        v, sh = shaped_path(V.I, td.t, 'td-shape')
        vol = Sym(V.ctx.fresh_str('vol'), 'str')
        V.ctx.ghost['cur_td'] = T(v)
        V.ctx.ghost['cur_vol'] = vol.t
        return [(v, vol)]


def _reads_since(ctx, mark):
    return [e for e in ctx.events[mark:] if e[0] == 'read']


def restore_reader_vc(S, prefix='restore-reader'):
    contracts = [ListTrashDirsForRestore(), ParsePath(),
                 dates.ParseDeletionDate(), purge.PathOfBackupCopy()]

    def at_end(I_, env):
        ctx = I_.ctx
        cur = ctx.ghost['cur_entry']
        td, vol = ctx.ghost['cur_td'], ctx.ghost['cur_vol']
        name, d = cur['name'], cur['dir']
        out = ctx.ghost['yielded'][ctx.ghost['yield_mark']:]
        ctx.ghost['yield_mark'] = len(ctx.ghost['yielded'])
        warns = [e for e in ctx.events[ctx.ghost['out_writes_mark']:]
                 if e[0] == 'write' and e[1] == 'stderr']
        full, is_entry = entry_facts(ctx, d, name)
        reads = _reads_since(ctx, ctx.ghost['out_writes_mark'])
        if len(reads) > 1:
            ctx.oblige(prefix + '/reads-each-info-once', z3.BoolVal(False))
            return
        if reads:
            ctx.oblige(prefix + '/reads-this-info', reads[0][1] == full)
        ok_read = bool(reads) and reads[0][3]
        if ok_read:
            text = reads[0][4]
            j, val = ParsePath.spec(text)
            want = z3.And(is_entry, j >= 0)
        else:
            want = z3.BoolVal(False)
        ctx.oblige(prefix + '/offered-iff-well-formed',
                   z3.BoolVal(len(out) == 1) == want)
        ctx.oblige(prefix + '/at-most-one-result-per-entry',
                   z3.BoolVal(len(out) <= 1))
        if len(out) == 1 and ok_read:
            tf = out[0]
            loc, date, info_file, payload = tf.items
            has, us, _j, _c = dates.spec_deletion_date(ctx, text)
            ctx.oblige(prefix + '/location-is-volume-joined-with-first-Path',
                       T(loc) == spec.join(vol, val, ctx=ctx))
            if isinstance(date, DateV):
                ctx.oblige(prefix + '/date-is-first-DeletionDate',
                           z3.And(has, date.us == us))
            else:
                ctx.oblige(prefix + '/date-is-first-DeletionDate',
                           z3.And(z3.BoolVal(date is None), z3.Not(has)))
            pay2, _s, _t = payload_spec(ctx, T(info_file))
            ctx.oblige(prefix + '/info-and-payload-of-this-entry',
                       z3.And(T(info_file) == full, T(payload) == pay2))
        if len(out) == 0:
            ctx.oblige(prefix + '/malformed-entry-gets-a-diagnostic-about-itself',
                       z3.BoolVal(len(warns) == 1))

    def on_element(I, env, seq, i, x):
        fsmodel.listdir_element_axioms(I.ctx, T(x))
        sg, p = seq.base[1], seq.base[2]
        I.ctx.ghost['cur_entry'] = {'dir': p, 'name': T(x), 'sigma': sg,
                                    'index': i}
        I.ctx.ghost['out_writes_mark'] = len(I.ctx.events)

    loops = {LISTFILES_LOOP: LoopAnnot(
        on_element=on_element,
        at_iteration_end=lambda I, env, seq, i, x: at_end(I, env),
        keep={'result'}),
        PARSE_PATH_LOOP: purge.parse_path_loop_annot(),
        dates.PARSE_LOOP: dates.parse_loop_annot()}

    def body(V):
        ctx = V.ctx
        c = wire(V, 'trashcli.restore.main', 'trashcli.restore.restore_cmd',
                 'RestoreCmd.run')
        tfs = c['self'].attrs['run_restore_action'].attrs['trashed_files']
        ctx.ghost['yielded'] = []
        ctx.ghost['yield_mark'] = 0
        ctx.ghost['basket_initial'] = None
        fv = S.resolve('trashcli.restore.trashed_files',
                       'TrashedFiles.all_trashed_files')
        for q in (('trashcli.restore.trashed_files',
                   'TrashedFiles.all_trashed_files_internal'),
                  ('trashcli.restore.info_dir_searcher',
                   'InfoDirSearcher.all_file_in_info_dir'),
                  ('trashcli.restore.info_files', 'InfoFiles.all_info_files'),
                  ('trashcli.parse_trashinfo.parse_original_location',
                   'parse_original_location'),
                  ('trashcli.fs', 'RealListFilesInDir.list_files_in_dir')):
            S.note_function(*q)
        cli = None
        if ctx.choose(2, 'trash-dir-from-cli') == 1:
            cli = arg_str('trash_dir_from_cli')
        try:
            g = V.I.call_function(fv, [], {'self': tfs,
                                           'trash_dir_from_cli': cli})
            for x in V.I.iterate(g):
                ctx.ghost['yielded'].append(x)
            ctx.cover(prefix + '/cover-end')
        except PyExc as pe:
            ctx.oblige(prefix + '/nothrow', z3.BoolVal(False), kind='nothrow',
                       info={'exception': pe.value.cls.name,
                             'op': pe.value.attrs.get('op')})

    S.install(contracts, loops)
    S.run_paths(prefix, body, active=[c.key for c in contracts])
    S.interp.call_hooks = []


# ---------------------------------------------------------------------------
def list_reader_vc(S, prefix='list-reader'):
    contracts = [ParsePath(), dates.MaybeParseDeletionDate(),
                 purge.PathOfBackupCopy()]

    def classify(msgs):
        outs, errs = [], []
        for m in msgs:
            if m.cls.name == 'Output':
                outs.append(m.attrs['message'])
            elif m.cls.name == 'Error':
                errs.append(m.attrs['error'])
        return outs, errs

    def at_end(I_, env):
        ctx = I_.ctx
        cur = ctx.ghost['cur_entry']
        td, vol = ctx.ghost.get('cur_td'), ctx.ghost.get('cur_vol')
        name, d = cur['name'], cur['dir']
        msgs = ctx.ghost['yielded'][ctx.ghost['yield_mark']:]
        ctx.ghost['yield_mark'] = len(ctx.ghost['yielded'])
        outs, errs = classify(msgs)
        info_dir = spec.join(td, SV('info'), ctx=ctx)
        ctx.oblige(prefix + '/lists-the-info-dir-of-the-trash-dir',
                   d == info_dir)
        full, is_entry = entry_facts(ctx, d, name)
        reads = _reads_since(ctx, ctx.ghost['out_writes_mark'])
        if len(reads) > 1:
            ctx.oblige(prefix + '/reads-each-info-once', z3.BoolVal(False))
            return
        if reads:
            ctx.oblige(prefix + '/reads-this-info', reads[0][1] == full)
        ok_read = bool(reads) and reads[0][3]
        if ok_read:
            text = reads[0][4]
            j, val = ParsePath.spec(text)
            want = z3.And(is_entry, j >= 0)
            if ctx.ghost.get('list_mode') == 1:
                # --size prints the size of the payload: an entry whose
                # payload cannot be stat'ed (and is not a dangling link) is
                # malformed for this mode ("info without payload")
                fs = fs_of(I_)
                pay, _st, _td = purge.payload_spec(ctx, full)
                want = z3.And(want, z3.Or(fs.kind(pay) != ABSENT,
                                          fs.lkind(pay) == fsmodel.SYMLINK))
        else:
            want = z3.BoolVal(False)
        ctx.oblige(prefix + '/one-line-iff-well-formed',
                   z3.BoolVal(len(outs) == 1) == want)
        ctx.oblige(prefix + '/at-most-one-message-per-entry',
                   z3.BoolVal(len(msgs) <= 1))
        ctx.oblige(prefix + '/malformed-entry-gets-a-diagnostic-about-itself',
                   z3.Implies(z3.And(is_entry, z3.Not(want)),
                              z3.BoolVal(len(errs) == 1)))
        if len(outs) == 1 and ok_read:
            has, us, _j, _c = dates.spec_deletion_date(ctx, text)
            datestr = z3.If(has, spec.datestr_f(us), SV(UNKNOWN_DATE))
            loc = spec.join(vol, val, ctx=ctx)
            mode = ctx.ghost['list_mode']
            if mode == 0:
                ctx.oblige(prefix + '/line-is-date-space-absolute-path',
                           T(outs[0]) == z3.Concat(datestr, SV(' '), loc))
            elif mode == 1:
                ctx.oblige(prefix + '/size-line-ends-with-space-absolute-path',
                           z3.SuffixOf(z3.Concat(SV(' '), loc), T(outs[0])))
            else:
                want_p, _stem, _td = purge.payload_spec(ctx, full)
                ctx.oblige(prefix + '/files-line-is-date-path-arrow-payload',
                           T(outs[0]) == z3.Concat(datestr, SV(' '), loc,
                                                   SV(' -> '), want_p))

    # the selector/scanner is abstracted: an arbitrary sequence of events
    def list_loop_annot():
        def element(I, env, seq, i):
            I.ctx.ghost['yield_mark_ev'] = len(I.ctx.ghost['yielded'])
            ev = purge.trash_dir_element(I, env, seq, i)
            I.ctx.ghost['cur_event'] = ev
            return ev

        def at_iter_end(I, env, seq, i, x):
            ctx = I.ctx
            ev = ctx.ghost['cur_event']
            name = ev[0].payload
            if name.startswith('trash_dir_skipped'):
                msgs = ctx.ghost['yielded'][ctx.ghost['yield_mark_ev']:]
                outs, errs = classify(msgs)
                ctx.oblige(prefix + '/skipped-trash-dir-is-reported-on-stderr',
                           z3.And(z3.BoolVal(len(errs) == 1 and not outs),
                                  *[z3.Contains(T(e), T(ev[1][0])) for e in errs]))
        return LoopAnnot(abstract=True, element=element,
                         at_iteration_end=at_iter_end)

    loops = {ENTRIES_LOOP: purge.entries_loop_annot(at_end),
             LIST_LOOP: list_loop_annot(),
             PARSE_PATH_LOOP: purge.parse_path_loop_annot(),
             dates.PARSE_LOOP: dates.parse_loop_annot()}

    def hook(I_, fv, vals):
        if fv.qualname == 'TrashDirReader.list_trashinfo':
            I_.ctx.ghost['cur_td'] = z3str(vals['path'])
            I_.ctx.ghost['listing'] = 'info'
        elif fv.qualname == 'ListTrash._print_trashinfo':
            I_.ctx.ghost['cur_vol'] = z3str(vals['volume'])

    def body(V):
        ctx = V.ctx
        V.I.call_hooks = [hook]
        c = wire(V, 'trashcli.list.main', 'trashcli.list.main', 'ListCmd.run')
        cmd = c['self']
        args_cls = V.I.lookup('trashcli.list.list_trash_action', 'ListTrashArgs')
        action = cmd.attrs['actions'][args_cls]
        lt_cls = V.I.lookup('trashcli.list.list_trash_action', 'ListTrash')
        lt = V.I.call(lt_cls, [action.attrs['environ'], action.attrs['uid'],
                               action.attrs['selector'],
                               action.attrs['dir_reader'],
                               action.attrs['content_reader']], {})
        # the three line formats: default, --size, --files
        mode = ctx.choose(3, 'list-mode')
        ctx.ghost['list_mode'] = mode
        args = V.I.call(args_cls, [], {'trash_dirs': [],
                                       'attribute_to_print':
                                           'size' if mode == 1 else 'deletion_date',
                                       'show_files': mode == 2,
                                       'all_users': False})
        ctx.ghost['yielded'] = []
        ctx.ghost['yield_mark'] = 0
        ctx.ghost['basket_initial'] = UNKNOWN_DATE
        fv = S.resolve('trashcli.list.list_trash_action',
                       'ListTrash.list_all_trash')
        for q in (('trashcli.list.list_trash_action',
                   'ListTrash._print_trashinfo'),
                  ('trashcli.list.list_trash_action', 'format_line'),
                  ('trashcli.list.extractors',
                   'DeletionDateExtractor.extract_attribute'),
                  ('trashcli.list.extractors',
                   'SizeExtractor.extract_attribute'),
                  ('trashcli.list.list_trash_action', 'format_line2'),
                  ('trashcli.fs', 'file_size'),
                  ('trashcli.lib.trash_dir_reader',
                   'TrashDirReader.list_trashinfo')):
            S.note_function(*q)
        try:
            g = V.I.call_function(fv, [], {'self': lt, 'args': args})
            for x in V.I.iterate(g):
                ctx.ghost['yielded'].append(x)
            ctx.cover(prefix + '/cover-end')
        except PyExc as pe:
            ok = pe.value.attrs.get('op') == 'listdir'
            ctx.oblige(prefix + '/nothrow', z3.BoolVal(bool(ok)), kind='nothrow',
                       info={'exception': pe.value.cls.name,
                             'op': pe.value.attrs.get('op')})

    S.install(contracts, loops)
    S.run_paths(prefix, body, active=[c.key for c in contracts])
    S.interp.call_hooks = []


# ---------------------------------------------------------------------------
# VC: ListTrashAction.run_action prints every message of the listing, once,
# in order, on its own stream (C09: the listing is a bag - two entries with the
# same path and date are two lines)
# ---------------------------------------------------------------------------
RUN_ACTION_LOOP = ('trashcli.list.list_trash_action', 'ListTrashAction.run_action', 0)


class ListAllTrashAbstract(Contract):
    """ListTrash.list_all_trash abstracted to an arbitrary message stream
    (its own VC: list_reader_vc)"""
    module = 'trashcli.list.list_trash_action'
    qualname = 'ListTrash.list_all_trash'

    def apply(self, V, a):
        return []          # ignored: the loop over it is cut (abstract element)


def list_action_vc(S, prefix='list-action'):
    def element(I, env, seq, i):
        ctx = I.ctx
        mod = 'trashcli.list.list_trash_action'
        text = Sym(ctx.fresh_str('message'), 'str')
        ctx.assume(z3.Not(z3.Contains(text.t, SV('\n'))))
        kind = 'Output' if ctx.choose(2, 'message-kind') == 0 else 'Error'
        ev = I.call(I.lookup(mod, kind), [text], {})
        ctx.ghost['cur_msg'] = (kind, text)
        ctx.ghost['print_mark'] = len(ctx.events)
        return ev

    def at_end(I, env, seq, i, x):
        ctx = I.ctx
        kind, text = ctx.ghost['cur_msg']
        prints = [e for e in ctx.events[ctx.ghost['print_mark']:] if e[0] == 'print']
        ctx.oblige(prefix + '/every-message-is-printed-exactly-once',
                   z3.BoolVal(len(prints) == 1))
        if len(prints) == 1:
            want = 'stdout' if kind == 'Output' else 'stderr'
            ctx.oblige(prefix + '/lines-to-stdout-diagnostics-to-stderr-text-unchanged',
                       z3.And(z3.BoolVal(prints[0][1] == want),
                              z3str(prints[0][2]) == text.t))

    loops = {RUN_ACTION_LOOP: LoopAnnot(abstract=True, element=element,
                                        at_iteration_end=at_end)}
    contracts = [ListAllTrashAbstract()]

    def body(V):
        ctx = V.ctx
        c = wire(V, 'trashcli.list.main', 'trashcli.list.main', 'ListCmd.run')
        cmd = c['self']
        args_cls = V.I.lookup('trashcli.list.list_trash_action', 'ListTrashArgs')
        action = cmd.attrs['actions'][args_cls]
        args = V.I.call(args_cls, [], {'trash_dirs': [],
                                       'attribute_to_print': 'deletion_date',
                                       'show_files': False, 'all_users': False})
        fv = S.resolve('trashcli.list.list_trash_action', 'ListTrashAction.run_action')
        S.note_function('trashcli.list.list_trash_action', 'ListTrashAction.print_event')
        try:
            V.I.call_function(fv, [], {'self': action, 'args': args})
            ctx.cover(prefix + '/cover-end')
        except PyExc as pe:
            ctx.oblige(prefix + '/nothrow', z3.BoolVal(False), kind='nothrow',
                       info={'exception': pe.value.cls.name})

    S.install(contracts, loops)
    S.run_paths(prefix, body, active=[c.key for c in contracts])
    del S.interp.loop_annots[RUN_ACTION_LOOP]
