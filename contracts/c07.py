"""C07: trash-put picks the trash dir the spec prescribes, on the file's own
volume."""
from . import put, trashdirs, purge, scenarios, options

PROPERTY = 'C07'

def _base(S):
    S.install([trashdirs.VolumeOf(), trashdirs.HomeTrashDirPath(), put.MkdirP(),
               put.ForFile(), put.PutMove(), put.PutRemoveFile()],
              loops={trashdirs.VOLUME_OF_LOOP: trashdirs.volume_of_loop_annot()})
    return [trashdirs.VolumeOf().key, trashdirs.HomeTrashDirPath().key]

LEVEL_NOTE = ('decision tables: home trash path from the environment (XDG set '
              'and non-empty, else HOME), the ordered candidate list, volume_of '
              '(loop invariant + variant: nearest mount point of abspath), the '
              'same-volume gate (volume of realpath(normpath(trash dir)) equals '
              'the file volume before anything is created), home fallback only '
              'with TRASH_ENABLE_HOME_FALLBACK=1, skeleton created 0700')
EXPECTED = [
    'put-options/mode-is-the-last-of-f-and-i',
    'put-options/home-fallback-only-with-its-flag',
    'put-options/trash-dir-is-the-last-trash-dir-value',
    'put-options/files-are-the-operands-in-order',
    'put-options/no-file-operand-is-a-usage-error-with-non-zero-exit',
    'trashcli.lib.trash_dirs.home_trash_dir_path_from_env/post/xdg-then-home',
    'trashcli.put.trash_directories_finder.TrashDirectoriesFinder.possible_trash_directories_for/post/candidates-in-the-prescribed-order',
    'trashcli.put.trash_directories_finder.TrashDirectoriesFinder.possible_trash_directories_for/post/top-candidate-is-volume-dot-Trash-uid',
    'trashcli.put.trash_directories_finder.TrashDirectoriesFinder.possible_trash_directories_for/post/trash-dir-option-candidate',
    'trashcli.fstab.volume_of_impl.VolumeOfImpl.volume_of/post/nearest-mount-point-of-abspath',
    'trashcli.fstab.volume_of_impl.VolumeOfImpl.volume_of/loop0/variant',
    'trashcli.put.janitor_tools.trash_dir_creator.TrashDirCreator.make_candidate_dirs/post/trash-dir-skeleton-created-private-0700',
    'put/attempt/used-only-on-the-files-own-volume',
    'put/attempt/home-fallback-needs-the-environment-switch',
    'put/file/volume-is-that-of-the-entry-parent-resolved',
    'put/file/candidates-tried-in-the-prescribed-order',
    'put/file/trash-dir-option-restricts-the-choice',
    'put/file/no-home-fallback-without-the-option',
]


def build(S, tier, seed):
    act = put.leaf_vcs(S)
    put.trash_file_in_vc(S, conservation=False)
    put.trash_file_vc(S)
    options.put_options_vc(S)


def _battery(S, r, o):
    return scenarios.put_volumes_battery(S.interp.repo)


REPLAYERS = {'': _battery}


KF_CLASSES = {}


def finalize_args(S, tier, seed):
    return {'extra_assumptions': [
        'os.path.ismount and the mount table agree; umask keeps the owner bits; '
        'intermediate directories created by makedirs are not trash dirs',
        'ASSUMED lemma on the shape of volume_of results (see trusted base)']}
