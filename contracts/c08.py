"""C08: an insecure shared $topdir/.Trash is never used, for writing, reading
or purging."""
import z3
from . import put, trashdirs, purge, readers, dates, scenarios

PROPERTY = 'C08'
LEVEL_NOTE = ('write side: check_trash_dir_is_secure Right iff the parent '
              'exists, is a directory, is not a symlink and is sticky; the '
              'finder gives that check to exactly the .Trash/$uid candidate; a '
              'failed check means no fs event in that candidate. Read side: '
              'valid_to_be_read decision table; the scanner (list/empty/rm) and '
              'TrashDirectoriesImpl (restore) yield $vol/.Trash/$uid iff it '
              'exists and its parent is secure, for every volume and fs state; '
              'trash-list turns a skipped event into an stderr line')
EXPECTED = [
    'trashcli.put.janitor_tools.security_check.SecurityCheck.check_trash_dir_is_secure/post/right-iff-secure-parent',
    'trashcli.put.trash_directories_finder.TrashDirectoriesFinder.possible_trash_directories_for/post/candidates-in-the-prescribed-order',
    'put/attempt/insecure-top-trash-dir-is-never-touched',
    'put/file/failure-only-after-top-and-alt-were-tried',
    'trashcli.trash_dirs_scanner.TopTrashDirRules.valid_to_be_read/post/decision-table',
    'trashcli.trash_dirs_scanner.TopTrashDirRules.valid_to_be_read/post/valid-implies-secure-parent',
    'scanner/top-trash-dir-used-iff-secure-and-present',
    'scanner/insecure-top-trash-dir-is-reported-skipped',
    'restore-dirs/top-trash-dir-offered-iff-secure-and-present',
    'list-reader/skipped-trash-dir-is-reported-on-stderr',
]


def build(S, tier, seed):
    S.install([trashdirs.VolumeOf(), trashdirs.HomeTrashDirPath(), put.MkdirP(),
               put.ForFile(), put.PutMove(), put.PutRemoveFile()],
              loops={trashdirs.VOLUME_OF_LOOP: trashdirs.volume_of_loop_annot(),
                     dates.PARSE_LOOP: dates.parse_loop_annot(),
                     purge.PARSE_PATH_LOOP: purge.parse_path_loop_annot()})
    act = put.leaf_vcs(S)
    purge.leaf_vcs(S)
    S.verify(trashdirs.ValidToBeRead())
    put.trash_file_in_vc(S, conservation=False)
    put.trash_file_vc(S)
    trashdirs.scanner_vc(S)
    trashdirs.restore_dirs_vc(S)
    readers.list_reader_vc(S)


def insecure_top_battery(repo):
    """native: tmpfs volume with a populated .Trash/$uid under a .Trash in each
    insecure state; the five commands must not use it"""
    import subprocess, textwrap, os
    problems = []
    for state in ('nonsticky', 'setgid-nonsticky', 'setuid-nonsticky', 'symlink', 'file'):
        script = textwrap.dedent(r'''
            # trash-restore reads the real mount table; a tmpfs named 'tmpfs'
            # mounted on /tmp is the one non-physical file system it accepts
            mkdir -p /run/pyvc-repo && mount --bind %(repo)s /run/pyvc-repo
            mount -t tmpfs tmpfs /tmp
            R=/tmp; mkdir -p /run/pyvc-home && mount -t tmpfs none /run/pyvc-home
            export HOME=/run/pyvc-home XDG_DATA_HOME=/run/pyvc-home/.local/share TRASH_VOLUMES=$R
            PY="%(py)s"; B=/run/pyvc-repo; export PYTHONPATH=$B; uid=$(id -u)
            case %(state)s in
              nonsticky) mkdir -p $R/.Trash/$uid/files $R/.Trash/$uid/info; chmod 0777 $R/.Trash;;
              setgid-nonsticky) mkdir -p $R/.Trash/$uid/files $R/.Trash/$uid/info; chmod 2777 $R/.Trash;;
              setuid-nonsticky) mkdir -p $R/.Trash/$uid/files $R/.Trash/$uid/info; chmod 4755 $R/.Trash;;
              symlink) mkdir -p $R/real/$uid/files $R/real/$uid/info; chmod 1777 $R/real; ln -s real $R/.Trash;;
              file) echo x > $R/.Trash;;
            esac
            T=$R/.Trash/$uid
            # as trash-put leaves it: private
            [ -d $T ] && chmod 700 $T
            if [ -d $T ]; then printf '[Trash Info]\nPath=old\nDeletionDate=2000-01-01T00:00:00\n' > $T/info/old.trashinfo; echo p > $T/files/old; fi
            mkdir $R/w; echo n > $R/w/new
            $PY $B/trash-put $R/w/new; echo "put $? $(ls $R/.Trash-$uid/files 2>/dev/null | tr '\n' ' ')"
            echo "LIST $($PY $B/trash-list 2>$R/err | grep -c old) $(grep -c -i skip $R/err)"
            cd $R; echo "RESTORE $(echo | $PY $B/trash-restore $R 2>&1 | grep -c '/tmp/old')"
            $PY $B/trash-rm old; $PY $B/trash-empty -f; echo "PURGED $(ls $T/files 2>/dev/null | tr '\n' ' ')"
        ''') % {'py': '/venv/bin/python', 'repo': repo, 'state': state}
        try:
            p = subprocess.run(['unshare', '-m', 'bash', '-c', script],
                               capture_output=True, text=True, timeout=120,
                               env=dict(os.environ, PYTHONPATH=repo))
        except Exception as e:
            return {'confirmed': False, 'note': 'unshare failed: %r' % (e,)}
        lines = dict((l.split()[0], l.split()[1:]) for l in p.stdout.split('\n')
                     if l and l.split()[0] in ('put', 'LIST', 'RESTORE', 'PURGED'))
        if lines.get('put', ['1'])[0] != '0' or 'new' not in lines.get('put', []):
            problems.append('%s: put did not fall through to .Trash-uid: %r' % (state, lines.get('put')))
        if state != 'file':
            if lines.get('LIST', ['1'])[0] != '0':
                problems.append('%s: trash-list shows entries of the insecure dir' % state)
            if lines.get('LIST', ['0', '0'])[1] == '0':
                problems.append('%s: trash-list does not report the skipped dir' % state)
            if lines.get('RESTORE', ['1'])[0] != '0':
                problems.append('%s: trash-restore offers entries of the insecure dir' % state)
            if 'old' not in lines.get('PURGED', []):
                problems.append('%s: rm/empty purged the insecure dir: %r' % (state, lines.get('PURGED')))
    return {'confirmed': bool(problems), 'problems': problems[:10]}


def _battery(S, r, o):
    return insecure_top_battery(S.interp.repo)


REPLAYERS = {'': _battery}
KF_CLASSES = {}


def finalize_args(S, tier, seed):
    return {'extra_assumptions': [
        'the rule is state based: a change of $topdir/.Trash between the check '
        'and the use (TOCTOU) is outside the statement',
        'trash-empty/trash-rm obtain their directories only from the scanner '
        '(their loops over scanner events are verified with the scanner '
        'abstracted; the scanner has its own VC here)']}
