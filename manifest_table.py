NOTES = 'contract-based deductive verification with pyvc; see DESIGN.md'
NOT_YET = {}
TB = ('library models of os/shutil/posixpath/urllib/datetime (DESIGN.md section 3) are axioms validated only by bounded '
      'differential checks; solver soundness; pyvc interpreter fidelity (engine-vs-CPython differential); '
      'argparse wiring assumed')
claim('C10', 'deductive VCs (pyvc, z3+cvc5) over older_than / parse_deletion_date / ok_to_delete / Emptier; loop invariants',
      'every obligation generated from the current source (strict age comparison, first-DeletionDate-line parsing, TRASH_DATE clock, '
      'per-entry purge-iff-older monitor, payload-then-info, orphan rule, path_of_backup_copy precondition at its call sites) is discharged for all DAYS>=0, dates, contents and listings',
      TB, 'DESIGN.md section 4 C10')

claim('C11', 'deductive VCs (pyvc): frame obligations on every removal event of Emptier.do_empty / RmCmd.run; remove_file2 / path_of_backup_copy contracts',
      'every removal reachable from trash-empty and trash-rm is proved to name an entry directly under files/ or info/ of the trash directory being processed '
      '(for every listing, info content, trash-dir spelling, fault outcome); remove_file2 unlinks first and calls rmtree only on real directories; '
      'path_of_backup_copy precondition (usable stem) holds at each call site',
      TB + '; shutil.rmtree / os.remove never follow links (axiom about the OS); a trash dir reached through a symlink is judged by its path string', 'DESIGN.md section 4 C11')
claim('C12', 'deductive VCs (pyvc): Filter.matches vs glob spec, parse_path loop invariant, per-entry monitor of RmCmd.run',
      'removed <=> readable, has a Path line and fnmatchcase(basename or full path, pattern), payload then info, nothing else: discharged for every pattern, content, listing, scanner event',
      TB + '; the meaning of *, ?, [..] is fnmatch.fnmatchcase (uninterpreted, trusted; bounded battery vs the real CLI in replays)', 'DESIGN.md section 4 C12')
claim('C14', 'deductive VCs (pyvc): zero-mutation frame under dry_run, per-entry print/remove correspondence, parse_reply + exhaustive code-point enumeration, Guard/EmptyAction',
      'under --dry-run no mutating fs event exists on any path and one "would remove p" line is printed per path the purge would remove; the emptier is reached only after a reply beginning with y/Y',
      TB + '; the non-interference of removals with later yields of the same generator is argued, not mechanised', 'DESIGN.md section 4 C14')
