NOTES = 'contract-based deductive verification with pyvc; see DESIGN.md'
NOT_YET = {}
TB = ('library models of os/shutil/posixpath/urllib/datetime (DESIGN.md section 3) are axioms validated only by bounded '
      'differential checks; solver soundness (every z3 sat model is re-evaluated); pyvc interpreter fidelity (no mechanised engine-vs-CPython proof: guarded by the native batteries, leaf oracles, the pinned-tree run and 120 seeded changes); '
      'argparse modelled for canonical argument vectors only (pyvc/argmodel.py; option VCs bounded to <= 2 option tokens)')
claim('C10', 'deductive VCs (pyvc, z3+cvc5) over older_than / parse_deletion_date / ok_to_delete / Emptier; loop invariants',
      'every obligation generated from the current source (strict age comparison, first-DeletionDate-line parsing, TRASH_DATE clock, '
      'per-entry purge-iff-older monitor, payload-then-info, orphan rule, path_of_backup_copy precondition at its call sites) is discharged for all DAYS>=0, dates, contents and listings',
      TB, 'DESIGN.md section 4 C10')

claim('C11', 'deductive VCs (pyvc): frame obligations on every removal event of Emptier.do_empty / RmCmd.run; remove_file2 / path_of_backup_copy contracts',
      'every removal reachable from trash-empty and trash-rm is proved to name an entry directly under files/ or info/ of the trash directory being processed '
      '(for every listing, info content, trash-dir spelling, fault outcome); remove_file2 unlinks first and calls rmtree only on real directories; '
      'path_of_backup_copy precondition (usable stem) holds at each call site',
      TB + '; shutil.rmtree / os.remove never follow links (axiom about the OS); a trash dir reached through a symlink is judged by its path string', 'DESIGN.md section 4 C11')
claim('C12', 'deductive VCs (pyvc): Filter.matches vs glob spec, parse_path loop invariant, per-entry monitor of RmCmd.run',
      'removed <=> readable, has a Path line and fnmatchcase(basename or full path, pattern), payload then info, nothing else: discharged for every pattern, content, listing, scanner event',
      TB + '; the meaning of *, ?, [..] is fnmatch.fnmatchcase (uninterpreted, trusted; bounded battery vs the real CLI in replays)', 'DESIGN.md section 4 C12')
claim('C14', 'deductive VCs (pyvc): zero-mutation frame under dry_run, per-entry print/remove correspondence, parse_reply + exhaustive code-point enumeration, Guard/EmptyAction',
      'under --dry-run no mutating fs event exists on any path and one "would remove p" line is printed per path the purge would remove; the emptier is reached only after a reply beginning with y/Y',
      TB + '; the non-interference of removals with later yields of the same generator is argued, not mechanised', 'DESIGN.md section 4 C14')

claim('C06', 'deductive VCs (pyvc): Restorer.restore_trashed_file over every lstat kind of the destination and every fault outcome; restore pipeline',
      'without --overwrite, any existing destination (lkind != Absent: file, dir, link, dangling link) means IOError before any fs event; with it the move targets the original location; a refused entry ends the run with exit 1 and a stderr message, later entries untouched',
      TB + '; rename(2) replaces a non-directory destination (axiom about the OS); no interference between the probe and the move', 'DESIGN.md section 4 C06')
claim('C13', 'deductive VCs (pyvc): scope predicate vs component-boundary spec, per-part grammar with loop cut, restore pipeline; bounded stand-in for whole-reply composition',
      'scope predicate proved for all path pairs; each comma-separated part denotes a dashless integer or an inclusive a-b range (any number of parts); pipeline: numbered listing, validation before any restore, restored == denoted, empty reply/EOF restore nothing, invalid reply exits non-zero',
      TB + '; BOUNDED (not proof): the pipeline VC covers replies of <= 2 parts, ranges of <= 2 elements, lists of 0 or 2 entries; int() is an uninterpreted int_ok/int_val pair', 'DESIGN.md section 4 C13')
claim('C15', 'deductive VCs (pyvc): per-entry ordering monitors checked on every path prefix of restore / empty / rm',
      'on every path of the three commands the info file is removed only after the payload removal or move was issued, and nothing but that entry is touched; every path prefix is itself a checked path, which is the kill-at-any-instant quantifier at the granularity of modelled events',
      TB + '; primitives are atomic w.r.t. a kill; kills inside shutil.rmtree / shutil.move follow the phase model', 'DESIGN.md section 4 C15')
claim('C19', 'deductive VCs (pyvc): per-entry nothrow + frame for the four readers (loop cut: arbitrary entry of an arbitrary listing), total sort key',
      'for every content and read outcome each reader handles an entry without raising, emits at most one message about it, and its treatment of an entry depends on that entry alone; sorting never raises for any mix of dated/undated entries',
      TB, 'DESIGN.md section 4 C19')
claim('C20', 'deductive VCs (pyvc): four readers proved against the same spec terms; scanner vs restore trash-dir/volume pairing; known finding for the home volume',
      'list, restore, rm and empty are each proved to compute join(V, unquote(first Path line)) / first DeletionDate line, and V is proved per kind of trash directory for the scanner and for restore; they agree except for the home trash on its own volume (KNOWN-FINDING)',
      TB + '; both commands are assumed to be given the same volume list', 'DESIGN.md section 4 C20')

PUT_TB = TB + '; OS primitives fork into success / OSError with a symbolic errno; shutil.move phase model; syscalls atomic w.r.t. kills; the argument is not the root directory; TRASH_PUT_FAKE_UID_FOR_TESTING unset; cleanup unlink of a just-created info does not fail'
claim('C01', 'deductive VCs (pyvc): typestate monitor over all paths of the put attempt, contracts of the fs wrappers, loop invariant of the name search; cross-device residual as known finding',
      'for every candidate kind, trash-dir spelling, fs state and fault sequence: success = one exclusive reservation then the entry moved to its payload; failure = nothing moved/copied/deleted and the reservation removed; dot entries in every spelling refused before any effect',
      PUT_TB, 'DESIGN.md section 4 C01')
claim('C04', 'deductive VCs (pyvc): O_EXCL flag obligation, reservation monitor, loop invariant over arbitrarily many collisions, injectivity lemma; rely/guarantee for schedules (trusted meta-theorem)',
      'a name is used only when its payload path is absent (lstat) and its .trashinfo was created exclusively by this process; the move targets exactly that payload path; only the own reservation is removed; mkdir -p tolerates concurrent creation',
      PUT_TB + '; R/G composition and linearisability of open(O_EXCL)/mkdir/rename trusted, interleavings not enumerated', 'DESIGN.md section 4 C04')
claim('C05', 'deductive VCs (pyvc): prefix-closed monitor invariant on every path of the put attempt; atomic_write event order',
      'on every path prefix: the payload is moved (one rename on the same volume) only after its .trashinfo was created exclusively and written completely in one write',
      PUT_TB, 'DESIGN.md section 4 C05')
claim('C07', 'deductive VCs (pyvc): decision tables (home trash path, candidate list, gates), volume_of loop invariant + variant, mode-constant obligation',
      'home trash path per XDG rules, exact ordered candidate list, volume_of = nearest mount point above abspath (terminates), a candidate is touched only if volume_of(realpath(trash dir)) equals the volume of the entry (parent resolved), home fallback only with TRASH_ENABLE_HOME_FALLBACK=1, skeleton created 0700',
      PUT_TB + '; ismount agrees with the mount table; ASSUMED lemma on the shape of volume_of results', 'DESIGN.md section 4 C07')
claim('C08', 'deductive VCs (pyvc): decision-table equivalence of the write-side and read-side checks; scanner and restore directory VCs for arbitrary volumes',
      'the .Trash/$uid candidate is touched by put only when $topdir/.Trash is a sticky non-symlink directory; the scanner (list/empty/rm) and restore yield it iff it exists and is secure; list reports a skipped directory on stderr',
      PUT_TB + '; state based (TOCTOU outside the statement)', 'DESIGN.md section 4 C08')
claim('C16', 'deductive VCs (pyvc): run_put/trash_each for argument lists of every length (loop invariant over the failed list) and, redundantly, for 0..3 concrete arguments; trash_single nothrow + diagnostics, trash_file diagnostics; option VC',
      'every argument is processed once, in order, with the same options; exit 0 iff no argument failed; every failure is preceded by a stderr line naming the argument; no exception escapes for any argument',
      PUT_TB + '; BOUNDED: <= 2 option tokens in the option VC', 'DESIGN.md section 4 C16')
claim('C17', 'deductive VCs (pyvc): all-paths fault forking of every primitive, termination variant of the retry loop, C01 monitor on every fault path',
      'every primitive of the put attempt fails with an arbitrary errno on some path of the VC; all paths end in the C01 post state; the name-search loop has a decreasing variant; every failure reason leads to the next candidate and a diagnostic',
      PUT_TB, 'DESIGN.md section 4 C17')
claim('C18', 'deductive VCs (pyvc): lexists obligation, move-source post (normpath, no trailing slash), for_file post (only the parent resolved), volume post',
      'presence is decided by lstat; the move source is the normalised argument without trailing slash; the recorded location keeps the base name and resolves only the parent; the volume is that of the entry with its parent resolved',
      PUT_TB + '; rename(2) of a path without trailing slash acts on the link itself (axiom about the OS)', 'DESIGN.md section 4 C18')

claim('C03', 'deductive VCs (pyvc): make_trashinfo_data post, symbolic execution of the real readers on the real writer text, 255 per-byte induction-step VCs for the safe set and decoder read from the source',
      'content == "[Trash Info]\\nPath=" + quote(location) + "\\nDeletionDate=" + strftime(now) + "\\n"; location absolute (home) or relative to the volume without ".."; parse_path(text) = unquote(quote(location)) and parse_deletion_date(text) = now truncated to seconds; unquote(quote(s)) = s by induction over bytes (step discharged per byte)',
      PUT_TB + '; urllib quote/unquote modelled as enc(utf8(s)) / utf8(dec(t)); strftime/strptime inverse axiom for year >= 1000; names that are not valid UTF-8 are refused by trash-put (no info written)', 'DESIGN.md section 4 C03')
claim('C02', 'deductive VCs (pyvc) + composition lemmas over the writer, reader, restorer, sort and pipeline contracts',
      'the location written re-joins to realpath(parent)/basename under the volume the reader pairs with that trash dir (absolute locations ignore it); the payload path is the same function of the info path on both sides; a restore is mkdirs(parent), move(payload -> location), remove(info) and nothing else; every sort mode is a list permutation; index i restores the entry printed at i',
      PUT_TB + '; rename(2) preserves the entry (axiom); history quantifier by disjoint frames + stated induction; pipeline VC bounded as in C13', 'DESIGN.md section 4 C02')
claim('C09', 'deductive VCs (pyvc): list generator contract per entry + view-update steps of put / restore / rm / empty; induction over histories stated',
      'trash-list prints exactly one "<date> <join(V, unquote(Path))>" line per *.trashinfo entry of the scanned directories; each command changes the set of info files exactly as the bag model says (one new exclusively created info per successful put, exactly the selected/matching/old entries removed)',
      PUT_TB + '; induction schema over command histories stated, not mechanised; inherits the C01 cross-device and C20 home-volume known findings', 'DESIGN.md section 4 C09')
