NOTES = 'contract-based deductive verification with pyvc; see DESIGN.md'
NOT_YET = {}
TB = ('library models of os/shutil/posixpath/urllib/datetime (DESIGN.md section 3) are axioms validated only by bounded '
      'differential checks; solver soundness; pyvc interpreter fidelity (engine-vs-CPython differential); '
      'argparse wiring assumed')
claim('C10', 'deductive VCs (pyvc, z3+cvc5) over older_than / parse_deletion_date / ok_to_delete / Emptier; loop invariants',
      'every obligation generated from the current source (strict age comparison, first-DeletionDate-line parsing, TRASH_DATE clock, '
      'per-entry purge-iff-older monitor, payload-then-info, orphan rule, path_of_backup_copy precondition at its call sites) is discharged for all DAYS>=0, dates, contents and listings',
      TB, 'DESIGN.md section 4 C10')
