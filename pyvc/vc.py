"""Verification sessions: contracts, VC generation per function, discharge,
grouping of results."""
import time
import traceback

import z3

from . import solver as solver_mod
from .ctx import BudgetExceeded, Ctx, Stats, explore
from .interp import Interp
from .values import (ContractOutOfDate, FuncV, GenV, OutsideSubset, PathEnd,
                     PyExc, Sym, mk, BoundMethod)


class LoopAnnot(object):
    def __init__(self, invariant=None, variant=None, types=None, keep=None,
                 havoc_ghost=None, abstract=False, on_element=None,
                 element=None, at_iteration_end=None, mutates=None):
        if invariant is None:
            invariant = lambda *a: []
        self.invariant = invariant
        self.variant = variant
        self.types = types
        self.keep = keep
        self.havoc_ghost = havoc_ghost
        self.abstract = abstract
        self.on_element = on_element
        self.element = element
        self.at_iteration_end = at_iteration_end
        # writes of the body to objects that exist before the loop which the
        # annotation abstracts itself (havoc_ghost); any other such write
        # makes the cut unsound and is rejected
        self.mutates = set(mutates or ())
        self.used = False


class Contract(object):
    """contract of one repo function.  Subclasses override the hooks."""
    module = None
    qualname = None
    raises = ()            # exception class names that may escape normally
    pure = False           # no fs effects, no heap effects

    @property
    def key(self):
        return (self.module, self.qualname)

    @property
    def name(self):
        return '%s.%s' % (self.module, self.qualname)

    # --- verification of the body --------------------------------------
    def setup(self, V):
        """create the symbolic arguments; returns dict name -> value"""
        raise NotImplementedError

    def pre(self, V, a):
        return []

    def post(self, V, a, outcome):
        """list of (name, z3 Bool).  outcome = ('return', value) or
        ('raise', exc_obj)."""
        return []

    # --- use at call sites ----------------------------------------------
    def apply(self, V, a):
        """produce the abstract result from the contract alone"""
        raise NotImplementedError

    def apply_at_call(self, interp, vals, site):
        V = View(interp)
        where = None
        if site is not None:
            env, node = site
            where = '%s:%d' % (env.module.name, node.lineno)
            caller = env.func.qualname if env.func else '<module>'
        else:
            caller = '?'
        for i, f in enumerate(self.pre(V, vals)):
            interp.ctx.oblige('%s/pre@%s#%d' % (self.name, caller, i), f,
                              kind='pre', where=where)
            interp.ctx.assume(f)
        interp.ctx.notes.setdefault('contracts_applied', []).append(self.name)
        return self.apply(V, vals)


class View(object):
    """what a contract sees: the interpreter, the path context, helpers"""

    def __init__(self, interp):
        self.I = interp
        self.ctx = interp.ctx

    def sym_str(self, hint):
        return Sym(self.ctx.fresh_str(hint), 'str')

    def sym_int(self, hint):
        return Sym(self.ctx.fresh_int(hint), 'int')

    def sym_bool(self, hint):
        return Sym(self.ctx.fresh_bool(hint), 'bool')

    def exc_is(self, exc, clsname):
        return exc.cls.issubclass(self.I.lib.exc_classes[clsname])

    def fs(self):
        from .fsmodel import fs_of
        return fs_of(self.I)


class Result(object):
    def __init__(self, name):
        self.name = name
        self.instances = 0
        self.discharged = 0
        self.trivial = 0
        self.by_backend = {}
        self.failed = []      # (obligation, model, log)
        self.unknown = []     # (obligation, log)
        self.solver_s = 0.0
        self.kind = None
        self.sample = None

    @property
    def status(self):
        if self.failed:
            return 'refuted'
        if self.unknown:
            return 'undecided'
        return 'proved'


class Session(object):
    def __init__(self, prop, repo=None):
        self.prop = prop
        self.interp = Interp(repo)
        self.interp.executed = {}       # 'module.qualname' -> sha256 of what ran
        self.stats = Stats()
        self.obligations = []
        self.functions = {}     # name -> sha256
        self.errors = []        # (where, kind, message) -> undecided/crash
        self.paths = 0
        self.used_axioms = set()
        self.results = {}
        self.notes = []
        self.t0 = time.time()

    # ------------------------------------------------------------------
    def install(self, contracts=(), loops=None):
        for c in contracts:
            self.interp.contracts[c.key] = c
        if loops:
            self.interp.loop_annots.update(loops)

    def resolve(self, module, qualname):
        fv = self.interp.lookup(module, qualname)
        if isinstance(fv, BoundMethod):
            fv = fv.func
        if not isinstance(fv, FuncV):
            raise ContractOutOfDate('%s.%s is not a function' %
                                    (module, qualname))
        self.functions['%s.%s' % (module, qualname)] = \
            self.interp.source_hash(fv)
        return fv

    def note_function(self, module, qualname):
        """list a helper in the evidence (functions_under_contract) when it
        exists under that name; helpers are interpreted in place, so renaming,
        moving or inlining one does not invalidate any contract (every repo
        function the interpreter actually executes is recorded as well)"""
        try:
            return self.resolve(module, qualname)
        except ContractOutOfDate:
            self.notes.append('helper %s.%s not found under that name '
                              '(interpreted where it is now)' % (module, qualname))
            return None

    def run_paths(self, label, body, active=(), max_paths=20000):
        """explore all paths of body(V); body creates obligations itself."""
        interp = self.interp
        interp.active_contracts = set(active)

        def run(ctx):
            interp.ctx = ctx
            interp.call_depth = 0
            interp.loop_frames = []
            V = View(interp)
            try:
                body(V)
            finally:
                self.used_axioms |= ctx.used_axioms

        t_start = time.time()
        soft0 = len(getattr(self.stats, 'soft_errors', []))
        try:
            ctxs = explore(run, self.stats, max_paths=max_paths)
        except OutsideSubset as e:
            self.errors.append((label, 'outside-subset', str(e)))
            return []
        except ContractOutOfDate as e:
            self.errors.append((label, 'contract-out-of-date', str(e)))
            return []
        except BudgetExceeded as e:
            self.errors.append((label, 'budget-exceeded', str(e)))
            return []
        except PyExc as e:
            self.errors.append((label, 'uncaught-exception-in-vc-driver',
                                repr(e)))
            return []
        except (KeyError, AttributeError, IndexError, TypeError) as e:
            # a contract / invariant / monitor refers to a local, attribute or
            # call shape that the code no longer has
            import traceback
            self.errors.append((label, 'contract-out-of-date',
                                '%r at %s' % (e, traceback.format_exc().strip().split('\n')[-3].strip())))
            return []
        for msg in getattr(self.stats, 'soft_errors', [])[soft0:]:
            self.errors.append((label, 'outside-subset', msg))
        n = 0
        for c in ctxs:
            for o in c.obligations:
                self.obligations.append(o)
                n += 1
        self.paths += len(ctxs)
        self.notes.append('%s: %d paths, %d obligation instances, %.1fs' %
                          (label, len(ctxs), n, time.time() - t_start))
        return ctxs

    def verify(self, contract, active=(), label=None, max_paths=20000,
               prefix=None):
        """check the body of contract's function against the contract,
        using the contracts in `active` at call sites."""
        interp = self.interp
        try:
            fv = self.resolve(contract.module, contract.qualname)
        except ContractOutOfDate as e:
            self.errors.append((contract.name, 'contract-out-of-date', str(e)))
            return
        name = prefix or contract.name
        label = label or name

        def body(V):
            a = contract.setup(V)
            for f in contract.pre(V, a):
                V.ctx.assume(f)
            V.ctx.cover('%s/cover-pre' % name)
            interp.under_verification = (fv.key, True)
            args = dict(a)
            try:
                r = interp.call_function(fv, [], args)
                if isinstance(r, GenV):
                    r = contract.drain(V, a, r)
                outcome = ('return', r)
            except PyExc as pe:
                outcome = ('raise', pe.value)
            finally:
                interp.under_verification = None
            if outcome[0] == 'return':
                V.ctx.oblige('%s/nothrow' % name, z3.BoolVal(True),
                             kind='nothrow')
            if outcome[0] == 'raise':
                ok = any(outcome[1].cls.issubclass(
                    interp.lib.exc_classes[c]) for c in contract.raises)
                V.ctx.oblige('%s/nothrow' % name, z3.BoolVal(ok),
                             kind='nothrow',
                             info={'exception': outcome[1].cls.name,
                                   'args': repr(outcome[1].attrs.get('args'))})
                if not ok:
                    return
            for n, f in contract.post(V, a, outcome):
                V.ctx.oblige('%s/post/%s' % (name, n), f, kind='post')
            V.ctx.cover('%s/cover-post' % name)

        interp.under_verification = None
        self.run_paths(label, body, active=set(active) - {contract.key},
                       max_paths=max_paths)

    def lemma(self, name, build):
        """a closed lemma: build(V) adds assumptions and returns the goal (or
        a list of (subname, goal))."""
        def body(V):
            g = build(V)
            if isinstance(g, list):
                for sub, f in g:
                    V.ctx.oblige('%s/%s' % (name, sub), f, kind='lemma')
            else:
                V.ctx.oblige(name, g, kind='lemma')
        self.run_paths(name, body)

    # ------------------------------------------------------------------
    def discharge(self, want_models=True):
        """discharge every obligation.  The query pc /\ not goal is split into
        its connected components (assertions sharing no uninterpreted symbol
        are independent): it is unsat iff some component is unsat, and sat iff
        every component is sat.  Components are small, shared by many
        obligations and solved once."""
        from .ctx import symbols_of
        obs = self.obligations
        pre = {}
        comp_jobs = {}           # smt text -> job index
        jobs = []
        plan = {}                # obligation index -> list of job indices
        smts = {}
        for i, o in enumerate(obs):
            g = z3.simplify(o.goal)
            if o.expect == 'valid' and z3.is_true(g):
                pre[i] = ('unsat', None, 'simplifier', 0.0, [])
                continue
            if o.expect == 'valid' and z3.is_false(g) and not o.pc:
                pre[i] = ('sat', {}, 'simplifier', 0.0, [])
                continue
            target = z3.Not(o.goal) if o.expect == 'valid' else o.goal
            asserts = list(o.pc) + [target]
            smts[i] = None
            comps = _components(asserts, symbols_of)
            idxs = []
            for comp in comps:
                sv = z3.Solver()
                for a in comp:
                    sv.add(a)
                text = sv.to_smt2()
                j = comp_jobs.get(text)
                if j is None:
                    j = len(jobs)
                    comp_jobs[text] = j
                    jobs.append([j, text, want_models, o.kind == 'cover'])
                elif o.kind != 'cover':
                    jobs[j][3] = False
                idxs.append(j)
            plan[i] = idxs
        self.unique_queries = len(jobs)
        t0 = time.time()
        out = solver_mod.solve_all([tuple(j) for j in jobs])
        self.solve_wall = time.time() - t0
        jres = {}
        for idx, v, m, backend, secs, log in out:
            jres[idx] = (v, m, backend, secs, log)
        # patient second round: a query that every back end left open within
        # the normal budgets (typically because all cores were busy) is tried
        # again with generous ones, so that verdicts do not flip under load
        needed = set()
        for i, idxs in plan.items():
            if obs[i].kind != 'cover':
                needed.update(idxs)
        again = [j for j in sorted(needed) if jres[j][0] == 'unknown']
        if again and len(again) <= 32:
            out2 = solver_mod.solve_all(
                [(j, jobs[j][1], want_models, False, True) for j in again])
            for idx, v, m, backend, secs, log in out2:
                old = jres[idx]
                jres[idx] = (v, m, backend, old[3] + secs,
                             list(old[4]) + ['patient:'] + list(log))
        charged = set()
        verdicts = dict(pre)
        for i, idxs in plan.items():
            vs = [jres[j] for j in idxs]
            secs = 0.0
            for j in idxs:
                if j not in charged:
                    charged.add(j)
                    secs += jres[j][3]
            log = ['%d component(s): ' % len(idxs) + ' | '.join(
                ','.join(r[4]) for r in vs if r[0] != 'sat' or len(idxs) == 1)]
            if any(r[0] == 'unsat' for r in vs):
                b = [r[2] for r in vs if r[0] == 'unsat'][0]
                verdicts[i] = ('unsat', None, b, secs, log)
            elif all(r[0] == 'sat' for r in vs):
                model = {}
                for r in vs:
                    if isinstance(r[1], dict):
                        model.update(r[1])
                backends = sorted(set(r[2] for r in vs))
                verdicts[i] = ('sat', model, '+'.join(backends), secs, log)
            else:
                verdicts[i] = ('unknown', None, 'none', secs, log)
        results = {}
        for i, o in enumerate(obs):
            v, m, backend, secs, log = verdicts[i]
            r = results.setdefault(o.name, Result(o.name))
            r.kind = o.kind
            r.instances += 1
            r.solver_s += secs
            good = 'unsat' if o.expect == 'valid' else 'sat'
            bad = 'sat' if o.expect == 'valid' else 'unsat'
            smt = None
            if (v != good or r.sample is None) and i in plan and o.kind != 'cover':
                smt = solver_mod.to_smt2(o.pc, o.goal, o.expect)
                if r.sample is None:
                    r.sample = smt[:1500]
            if v == good:
                r.discharged += 1
                r.by_backend[backend] = r.by_backend.get(backend, 0) + 1
                if backend == 'simplifier':
                    r.trivial += 1
            elif v == bad:
                r.failed.append((o, m, log, smt))
            else:
                r.unknown.append((o, log, smt))
        self.results = results
        return results


def _components(asserts, symbols_of):
    """partition assertions into groups connected through shared
    uninterpreted symbols; ground assertions form their own groups"""
    parent = {}

    def find(x):
        while parent[x] != x:
            parent[x] = parent[parent[x]]
            x = parent[x]
        return x

    def union(a, b):
        ra, rb = find(a), find(b)
        if ra != rb:
            parent[ra] = rb
    syms = []
    for k, a in enumerate(asserts):
        sy = symbols_of(a)
        syms.append(sy)
        node = ('a', k)
        parent[node] = node
        for s_ in sy:
            n2 = ('s', s_)
            if n2 not in parent:
                parent[n2] = n2
            union(node, n2)
    groups = {}
    for k, a in enumerate(asserts):
        groups.setdefault(find(('a', k)), []).append(a)
    # deterministic order inside a component (dedupe across paths)
    out = []
    for g in groups.values():
        out.append(sorted(g, key=lambda t: t.sexpr()))
    return out
