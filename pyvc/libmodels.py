"""Library models: builtins, str methods, os.path, urllib, datetime, typing,
enum, ...  (DESIGN.md section 3).  Everything here is *trusted* and listed in
the evidence; the bounded differential checks in pyvc/validate.py compare the
models with CPython."""
import ast

import z3

from .values import tid, SetV

from . import spec
from .values import (BoundMethod, Builtin, ClassM, ClassV, EnumMember, FuncV,
                     GenV, IterV, LibModule, ModuleV, Obj, Opaque,
                     OutsideSubset, PropertyV, PyExc, RangeV, StaticM,
                     StrSubObj, StreamV, SuperV, Sym, SymDict, SymSeq,
                     TupleObj, is_sym, mk, z3bool, z3int, z3str)

_MISSING = None  # set below
_NOKEY = object()


class DateV(object):
    """datetime.datetime as integer microseconds since 0001-01-01; `aware`:
    carries a tzinfo (parsed with %z): ordering or subtracting an aware and a
    naive datetime raises TypeError in CPython"""
    __slots__ = ('us', 'aware')
    always_truthy = True

    def __init__(self, us, aware=False):
        self.us = us
        self.aware = aware


class DeltaV(object):
    __slots__ = ('us',)

    def __init__(self, us):
        self.us = us


DATE_MAX_US = 315537897599999999  # 9999-12-31T23:59:59.999999
DAY_US = 86400 * 1000000

EXC_TREE = {
    'BaseException': None,
    'Exception': 'BaseException',
    'SystemExit': 'BaseException',
    'KeyboardInterrupt': 'BaseException',
    'StopIteration': 'Exception',
    'ArithmeticError': 'Exception',
    'OverflowError': 'ArithmeticError',
    'AttributeError': 'Exception',
    'EOFError': 'Exception',
    'ImportError': 'Exception',
    'LookupError': 'Exception',
    'IndexError': 'LookupError',
    'KeyError': 'LookupError',
    'NameError': 'Exception',
    'OSError': 'Exception',
    'FileNotFoundError': 'OSError',
    'FileExistsError': 'OSError',
    'PermissionError': 'OSError',
    'IsADirectoryError': 'OSError',
    'NotADirectoryError': 'OSError',
    'RuntimeError': 'Exception',
    'NotImplementedError': 'RuntimeError',
    'TypeError': 'Exception',
    'ValueError': 'Exception',
    'UnicodeError': 'ValueError',
    'UnicodeDecodeError': 'UnicodeError',
    'UnicodeEncodeError': 'UnicodeError',
    'AssertionError': 'Exception',
}


class Library(object):
    def __init__(self, interp):
        self.I = interp
        self.exc_classes = {}
        self.object_cls = ClassV('object', 'builtins', [])
        self.object_cls.mro = [self.object_cls]
        self.object_cls.builtin_kind = 'object'
        self.tuple_cls = self._builtin_cls('tuple', 'tuple')
        self.str_cls = self._builtin_cls('str', 'str')
        self.int_cls = self._builtin_cls('int', 'int')
        self.bool_cls = self._builtin_cls('bool', 'bool')
        self.list_cls = self._builtin_cls('list', 'list')
        self.dict_cls = self._builtin_cls('dict', 'dict')
        self.type_cls = self._builtin_cls('type', 'type')
        self.enum_cls = self._builtin_cls('Enum', 'enum')
        self.generic_marker = self._builtin_cls('Generic', 'marker')
        self.protocol_marker = self._builtin_cls('Protocol', 'marker')
        self.abc_marker = self._builtin_cls('ABC', 'marker')
        for name in EXC_TREE:
            self._exc_cls(name)
        self.exc_classes['IOError'] = self.exc_classes['OSError']
        self.exc_classes['EnvironmentError'] = self.exc_classes['OSError']
        shutil_err = ClassV('Error', 'shutil', [self.exc_classes['OSError']])
        shutil_err.compute_mro()
        shutil_err.builtin_kind = 'exception'
        self.exc_classes['shutil.Error'] = shutil_err
        re_err = ClassV('error', 're', [self.exc_classes['Exception']])
        re_err.compute_mro()
        re_err.builtin_kind = 'exception'
        self.exc_classes['re.error'] = re_err
        self.opaque_counter = 0
        self.builtins = {}
        self.registry = {}
        self._init_builtins()
        self._init_registry()
        from . import fsmodel
        fsmodel.register(self)
        from . import argmodel
        argmodel.install(self)

    # ------------------------------------------------------------------
    def _builtin_cls(self, name, kind):
        c = ClassV(name, 'builtins', [self.object_cls])
        c.builtin_kind = kind
        c.compute_mro()
        return c

    def _exc_cls(self, name):
        if name in self.exc_classes:
            return self.exc_classes[name]
        parent = EXC_TREE[name]
        bases = [self._exc_cls(parent)] if parent else [self.object_cls]
        c = ClassV(name, 'builtins', bases)
        c.builtin_kind = 'exception'
        c.compute_mro()
        self.exc_classes[name] = c
        return c

    def make_exc(self, clsname, msg='', **attrs):
        cls = self.exc_classes[clsname]
        o = Obj(cls)
        o.attrs['args'] = (msg,)
        o.attrs['errno'] = None
        o.attrs['filename'] = None
        o.attrs.update(attrs)
        return o

    # ------------------------------------------------------------------
    # class construction
    # ------------------------------------------------------------------
    def build_class(self, name, module, bases, qual):
        real = []
        for b in bases:
            if isinstance(b, ClassV):
                if b.builtin_kind == 'marker':
                    continue
                real.append(b)
            elif isinstance(b, _TypingThing):
                continue
            elif isinstance(b, Opaque):
                continue   # e.g. argparse.Action: never instantiated by pyvc
            else:
                raise OutsideSubset('base class %r' % (b,))
        if not real:
            real = [self.object_cls]
        c = ClassV(name, module, real, qual)
        c.compute_mro()
        for b in c.mro[1:]:
            if b.nt_fields is not None and c.nt_fields is None:
                c.nt_fields = b.nt_fields
            if b.builtin_kind in ('exception', 'tuple', 'str', 'enum') and \
                    c.builtin_kind is None:
                c.builtin_kind = b.builtin_kind
        return c

    def finish_class(self, cls):
        if cls.builtin_kind == 'enum':
            cls.is_enum = True
            members = []
            for k, v in list(cls.attrs.items()):
                if k.startswith('_') or isinstance(
                        v, (FuncV, StaticM, ClassM, PropertyV)):
                    continue
                m = EnumMember(cls, k, v)
                cls.attrs[k] = m
                members.append(m)
            cls.enum_members = members

    def make_namedtuple(self, name, fields, module):
        c = ClassV(name, module, [self.tuple_cls])
        c.compute_mro()
        c.builtin_kind = 'tuple'
        c.nt_fields = list(fields)
        return c

    def instantiate(self, cls, args, kwargs):
        I = self.I
        kind = cls.builtin_kind
        if cls in (self.str_cls,):
            return self.to_str(args[0]) if args else ''
        if cls is self.int_cls:
            return self.bi_int(I, args, kwargs)
        if cls is self.list_cls:
            return self.bi_list(I, args, kwargs)
        if cls is self.tuple_cls:
            return tuple(I.iterate(args[0])) if args else ()
        if cls is self.dict_cls:
            return dict(kwargs)
        if cls is self.bool_cls:
            v = args[0] if args else False
            if is_sym(v) and v.ty == 'bool':
                return v
            return I.truth(v)
        if cls is self.type_cls:
            return self.type_of(args[0])
        new, owner = cls.lookup('__new__')
        if owner is not None and isinstance(new, (FuncV, StaticM)):
            f = new.func if isinstance(new, StaticM) else new
            return I.call(f, [cls] + args, kwargs)
        if kind == 'tuple':
            if cls.nt_fields is not None:
                fields = cls.nt_fields
                if len(args) > len(fields):
                    raise PyExc(self.make_exc('TypeError', 'too many args'))
                vals = list(args)
                for f in fields[len(args):]:
                    if f not in kwargs:
                        raise PyExc(self.make_exc(
                            'TypeError', 'missing field %s' % f))
                    vals.append(kwargs[f])
                for k in kwargs:
                    if k not in fields:
                        raise PyExc(self.make_exc(
                            'TypeError', 'unexpected field %s' % k))
                return TupleObj(cls, vals)
            return TupleObj(cls, tuple(I.iterate(args[0])) if args else ())
        if kind == 'str':
            return StrSubObj(cls, args[0] if args else '')
        if kind == 'enum':
            for m in cls.enum_members:
                if self.equals(m.attrs['value'], args[0]) is True:
                    return m
            raise PyExc(self.make_exc('ValueError', 'not a valid enum value'))
        if kind == 'exception':
            o = Obj(cls)
            o.attrs['args'] = tuple(args)
            o.attrs['errno'] = None
            o.attrs['filename'] = None
            init, owner = cls.lookup('__init__')
            if owner is not None and isinstance(init, FuncV):
                I.call(init, [o] + args, kwargs)
            return o
        o = Obj(cls)
        init, owner = cls.lookup('__init__')
        if owner is not None:
            I.call(init, [o] + args, kwargs)
        elif args or kwargs:
            raise PyExc(self.make_exc(
                'TypeError', '%s() takes no arguments' % cls.name))
        return o

    def type_of(self, v):
        if isinstance(v, Obj):
            return v.cls
        if isinstance(v, bool) or (is_sym(v) and v.ty == 'bool'):
            return self.bool_cls
        if isinstance(v, int) or (is_sym(v) and v.ty == 'int'):
            return self.int_cls
        if isinstance(v, str) or (is_sym(v) and v.ty == 'str'):
            return self.str_cls
        if isinstance(v, list):
            return self.list_cls
        if isinstance(v, tuple):
            return self.tuple_cls
        if isinstance(v, dict):
            return self.dict_cls
        if isinstance(v, ClassV):
            return self.type_cls
        raise OutsideSubset('type() of %r' % (v,))

    # ------------------------------------------------------------------
    # modules and attribute lookup of library things
    # ------------------------------------------------------------------
    ALIASES = {
        'os.path': 'posixpath',
        'six.moves.urllib.parse': 'urllib.parse',
        'six.moves': 'six.moves',
    }

    def canon(self, dotted):
        for a, b in self.ALIASES.items():
            if dotted == a or dotted.startswith(a + '.'):
                return b + dotted[len(a):]
        return dotted

    MISSING_MODULES = ('shtab', 'scandir')   # absent from /venv (checked by selftest)

    def module(self, name):
        if name.split('.')[0] in self.MISSING_MODULES:
            raise PyExc(self.make_exc('ImportError', 'No module named ' + name))
        return LibModule(name)

    def environ(self):
        ctx = self.I.ctx
        if 'environ' not in ctx.ghost:
            ctx.ghost['environ'] = SymDict('environ', ctx)
        return ctx.ghost['environ']

    def attr(self, modname, name):
        if modname.split('.')[0] in self.MISSING_MODULES:
            raise PyExc(self.make_exc('ImportError', 'No module named ' + modname))
        dotted = self.canon(modname + '.' + name)
        if dotted == 'os.environ':
            return self.environ()
        if dotted in self.registry:
            return self.registry[dotted]
        if modname == 'typing' or modname == 'typing_extensions':
            return _TypingThing(name)
        prefix = dotted + '.'
        if any(k.startswith(prefix) for k in self.registry):
            return LibModule(dotted)
        return Opaque(dotted)

    def obj_attr(self, o, name):
        from .interp import _MISSING as M
        if o.cls.builtin_kind == 'exception':
            if name in ('errno', 'filename', 'args', 'code', 'strerror'):
                return o.attrs.get(name)
        if isinstance(o, StrSubObj):
            return self.value_attr(o.payload, name)
        if name == '__class__':
            return o.cls
        return M

    def class_attr(self, cls, name):
        from .interp import _MISSING as M
        if cls.builtin_kind == 'tuple' and name == '__new__':
            return Builtin('tuple.__new__', lambda I, a, k: TupleObj(
                a[0], tuple(I.iterate(a[1]))))
        return M

    def super_attr(self, sup, name):
        from .interp import _MISSING as M
        if name == '__init__':
            return Builtin('object.__init__', lambda I, a, k: None)
        return M

    def value_attr(self, o, name):
        from .interp import _MISSING as M
        from . import argmodel
        if isinstance(o, (argmodel.ArgParserV, argmodel.ActionV)):
            return argmodel.value_attr(self, o, name)
        if isinstance(o, str) or (is_sym(o) and o.ty == 'str') or \
                isinstance(o, StrSubObj):
            m = getattr(self, 'str_' + name, None)
            if m is not None:
                return Builtin('str.' + name,
                               lambda I, a, k, m=m, o=o: m(o, *a, **k))
        if is_sym(o) and o.ty == 'bytes':
            if name == 'decode':
                return Builtin('bytes.decode', lambda I, a, k, o=o:
                               Sym(spec.decode_f(o.t), 'str'))
        if isinstance(o, list):
            if name == 'append':
                return Builtin('list.append', lambda I, a, k, o=o:
                               (I.heap_write(o, 'append'), o.append(a[0]))[1])
            if name == 'extend':
                return Builtin('list.extend', lambda I, a, k, o=o:
                               (I.heap_write(o, 'extend'),
                                o.extend(I.iterate(a[0])))[1])
        if isinstance(o, SymSeq):
            if name == 'append':
                return Builtin('list.append (symbolic list)',
                               lambda I, a, k, o=o: self._symseq_append(I, o, a[0]))
        if isinstance(o, SetV):
            if name == 'add':
                return Builtin('set.add', lambda I, a, k, o=o:
                               self._set_add(I, o, a[0]))
        if isinstance(o, dict):
            if name == 'get':
                return Builtin('dict.get', lambda I, a, k, o=o: self._dict_get(o, a))
            if name == 'items':
                return Builtin('dict.items', lambda I, a, k, o=o: list(o.items()))
            if name == 'update':
                return Builtin('dict.update', lambda I, a, k, o=o:
                               (I.heap_write(o, 'update'), o.update(a[0]))[1])
            if name == 'setdefault':
                return Builtin('dict.setdefault', lambda I, a, k, o=o:
                               self._dict_setdefault(I, o, a))
        if isinstance(o, SymDict):
            if name == 'get':
                return Builtin('environ.get', lambda I, a, k, o=o:
                               self._symdict_get(o, a))
        if isinstance(o, StreamV):
            if name == 'write':
                return Builtin('stream.write', lambda I, a, k, o=o:
                               self._stream_write(o, a[0]))
            if name == 'flush':
                return Builtin('stream.flush', lambda I, a, k: None)
        if isinstance(o, DateV):
            if name == 'strftime':
                return Builtin('datetime.strftime', lambda I, a, k, o=o:
                               self._strftime(o, a[0]))
            if name == 'replace':
                return Builtin('datetime.replace', lambda I, a, k, o=o: o)
            if name == 'isoformat':
                return Builtin('datetime.isoformat', lambda I, a, k, o=o:
                               Sym(spec.datestr_f(o.us), 'str'))
        if isinstance(o, FuncV) and name == '__defaults__':
            return tuple(o.defaults)
        if isinstance(o, GenV) and name == '__iter__':
            return Builtin('gen.__iter__', lambda I, a, k, o=o: o)
        if isinstance(o, _TypingThing):
            return _TypingThing(o.name + '.' + name)
        if isinstance(o, Opaque):
            return Opaque(o.name + '.' + name)
        return M

    def _dict_setdefault(self, I, d, a):
        k = a[0]
        if is_sym(k):
            I.heap_write(d, 'setdefault (symbolic key)')
            raise OutsideSubset('dict.setdefault symbolic key')
        if k not in d:
            I.heap_write(d, 'setdefault')
            d[k] = a[1] if len(a) > 1 else None
        return d[k]

    def dict_find(self, d, k):
        """the key object of d that equals k on this path (deciding symbolic
        equalities by branching), or _NOKEY"""
        if not is_sym(k) and not any(is_sym(x) for x in d):
            try:
                return k if k in d else _NOKEY
            except TypeError:
                raise OutsideSubset('unhashable dict key %r' % (k,))
        for key in list(d.keys()):
            r = self.equals(k, key)
            if r is True:
                return key
            if r is False:
                continue
            if self.I.ctx.branch(r.t, 'dict-key-equal'):
                return key
        return _NOKEY

    def dict_store(self, I, d, k, v):
        key = self.dict_find(d, k)
        I.heap_write(d, 'item')
        d[k if key is _NOKEY else key] = v

    def _dict_get(self, d, a):
        key = self.dict_find(d, a[0])
        if key is _NOKEY:
            return a[1] if len(a) > 1 else None
        return d[key]

    def _symdict_get(self, d, a):
        k = a[0]
        if not isinstance(k, str):
            raise OutsideSubset('environ.get non-literal key')
        p, v = d.entry(k)
        if self.I.ctx.branch(p, 'env-has-' + k):
            return mk(v)
        return a[1] if len(a) > 1 else None

    def _stream_write(self, stream, s):
        self.I.ctx.events.append(('write', stream.name, s))
        return None

    def _strftime(self, d, fmt):
        if not isinstance(fmt, str):
            raise OutsideSubset('strftime symbolic format')
        ctx = self.I.ctx
        r = spec.strftime_f(z3.StringVal(fmt), d.us)
        key = ('strftime', fmt, tid(d.us))
        if key not in ctx.notes:
            ctx.notes[key] = True
            ctx.used_axioms.add('datetime.strftime/strptime axioms')
            # output has no newline and is ASCII; strptime inverts strftime
            # (to whole seconds) when 1000 <= year, any literal prefix.
            ctx.assume(z3.InRe(r, spec.ASCII_RE))
            ctx.assume(z3.Not(z3.Contains(r, z3.StringVal('\n'))))
        ctx.notes.setdefault('ascii', set()).add(tid(r))
        ctx.notes.setdefault('nonewline', set()).add(tid(r))
        return mk(r)

    # ------------------------------------------------------------------
    # str methods (first arg is the receiver)
    # ------------------------------------------------------------------
    def str_startswith(self, s, prefix):
        if isinstance(prefix, tuple):
            return mk(z3.Or(*[z3.PrefixOf(z3str(p), z3str(s)) for p in prefix]))
        return mk(z3.PrefixOf(z3str(prefix), z3str(s)))

    def str_endswith(self, s, suffix):
        if isinstance(suffix, tuple):
            return mk(z3.Or(*[z3.SuffixOf(z3str(p), z3str(s)) for p in suffix]))
        return mk(z3.SuffixOf(z3str(suffix), z3str(s)))

    def str_lower(self, s):
        if isinstance(s, str):
            return s.lower()
        ctx = self.I.ctx
        ctx.used_axioms.add(
            "str.lower uninterpreted; for a string of length <= 1: "
            "lower(s) == 'y' iff s in ('y','Y') (all 1,114,112 code points are "
            "enumerated under CPython by check C14)")
        r = spec.lower_f(s.t)
        ctx.assume(z3.Implies(z3.Length(s.t) <= 1, (r == z3.StringVal('y')) ==
                              z3.Or(s.t == z3.StringVal('y'),
                                    s.t == z3.StringVal('Y'))))
        ctx.assume((r == z3.StringVal('')) == (s.t == z3.StringVal('')))
        return Sym(r, 'str')

    def str_upper(self, s):
        if isinstance(s, str):
            return s.upper()
        raise OutsideSubset('str.upper symbolic')

    def str_rstrip(self, s, chars=None):
        if isinstance(s, str) and (chars is None or isinstance(chars, str)):
            return s.rstrip(chars)
        if chars == '/':
            return mk(spec.rstrip_slashes(self.I.ctx, z3str(s)))
        return self._strip_model(s, chars, False, True)

    _WS = ' \t\n\r\x0b\x0c'

    def _strip_model(self, s, chars, left, right):
        if isinstance(s, str) and (chars is None or isinstance(chars, str)):
            if left and right:
                return s.strip(chars)
            return s.lstrip(chars) if left else s.rstrip(chars)
        if chars is not None and not isinstance(chars, str):
            raise OutsideSubset('strip with symbolic chars')
        cs = self._WS if chars is None else chars
        if not cs:
            return s
        ctx = self.I.ctx
        t = z3str(s)
        cls = z3.Union(*[z3.Re(c) for c in cs]) if len(cs) > 1 else z3.Re(cs)
        run = z3.Star(cls)
        lead = ctx.fresh_str('lead') if left else None
        trail = ctx.fresh_str('trail') if right else None
        mid = ctx.fresh_str('stripped')
        parts = ([lead] if left else []) + [mid] + ([trail] if right else [])
        ctx.assume(t == (z3.Concat(*parts) if len(parts) > 1 else parts[0]))
        first = z3.SubString(mid, 0, 1)
        last = z3.SubString(mid, z3.Length(mid) - 1, 1)
        if left:
            ctx.assume(z3.InRe(lead, run))
            ctx.assume(z3.Or(mid == z3.StringVal(''), z3.Not(z3.InRe(first, cls))))
        if right:
            ctx.assume(z3.InRe(trail, run))
            ctx.assume(z3.Or(mid == z3.StringVal(''), z3.Not(z3.InRe(last, cls))))
        ctx.used_axioms.add('str.strip/lstrip/rstrip: the middle part after '
                            'removing the maximal runs of the given characters')
        return Sym(mid, 'str')

    def str_strip(self, s, chars=None):
        return self._strip_model(s, chars, True, True)

    def str_lstrip(self, s, chars=None):
        return self._strip_model(s, chars, True, False)

    def str_partition(self, s, sep):
        if isinstance(s, str) and isinstance(sep, str):
            return s.partition(sep)
        if not isinstance(sep, str) or not sep:
            raise OutsideSubset('partition with symbolic separator')
        ctx = self.I.ctx
        t = z3str(s)
        sv = z3.StringVal(sep)
        if ctx.branch(z3.Contains(t, sv), 'partition-found'):
            a = ctx.fresh_str('before')
            b = ctx.fresh_str('after')
            ctx.assume(t == z3.Concat(a, sv, b))
            ctx.assume(z3.Not(z3.Contains(z3.Concat(a, z3.StringVal(sep[:-1])), sv))
                       if len(sep) > 1 else z3.Not(z3.Contains(a, sv)))
            return (mk(a), sep, mk(b))
        return (s, '', '')

    def str_rpartition(self, s, sep):
        if isinstance(s, str) and isinstance(sep, str):
            return s.rpartition(sep)
        if not isinstance(sep, str) or not sep:
            raise OutsideSubset('rpartition with symbolic separator')
        ctx = self.I.ctx
        t = z3str(s)
        sv = z3.StringVal(sep)
        if ctx.branch(z3.Contains(t, sv), 'rpartition-found'):
            a = ctx.fresh_str('before')
            b = ctx.fresh_str('after')
            ctx.assume(t == z3.Concat(a, sv, b))
            ctx.assume(z3.Not(z3.Contains(z3.Concat(z3.StringVal(sep[1:]), b), sv))
                       if len(sep) > 1 else z3.Not(z3.Contains(b, sv)))
            return (mk(a), sep, mk(b))
        return ('', '', s)

    def str_isdigit(self, s):
        if isinstance(s, str):
            return s.isdigit()
        return mk(z3.InRe(z3str(s), z3.Plus(z3.Range('0', '9'))))

    def str_replace(self, s, a, b):
        if isinstance(s, str) and isinstance(a, str) and isinstance(b, str):
            return s.replace(a, b)
        ctx = self.I.ctx
        ts, ta, tb = z3str(s), z3str(a), z3str(b)
        r = spec.replace_all_f(ts, ta, tb)
        ctx.used_axioms.add('str.replace: uninterpreted; identity when the '
                            'pattern does not occur; no occurrence remains '
                            'when the replacement does not contain it')
        ctx.assume(z3.Implies(z3.Not(z3.Contains(ts, ta)), r == ts))
        ctx.assume(z3.Implies(z3.And(ta != z3.StringVal(''),
                                     z3.Not(z3.Contains(tb, ta)),
                                     z3.Contains(ts, ta)), r != ts))
        return Sym(r, 'str')

    def str_find(self, s, sub):
        return mk(z3.IndexOf(z3str(s), z3str(sub), 0))

    def str_format(self, s, *args):
        if not isinstance(s, str):
            raise OutsideSubset('format on symbolic')
        parts = s.split('{}')
        if len(parts) != len(args) + 1 or '{' in ''.join(parts):
            raise OutsideSubset('str.format spec %r' % s)
        out = [z3.StringVal(parts[0])]
        for a, p in zip(args, parts[1:]):
            out.append(z3str(self.to_str(a)))
            out.append(z3.StringVal(p))
        return mk(z3.Concat(*out)) if len(out) > 1 else mk(out[0])

    def str_join(self, s, items):
        items = [self.to_str(x) for x in self.I.iterate(items)]
        if not items:
            return ''
        out = []
        for i, x in enumerate(items):
            if i:
                out.append(z3str(s))
            out.append(z3str(x))
        return mk(z3.Concat(*out)) if len(out) > 1 else mk(out[0])

    def str_encode(self, s, encoding='utf-8', errors='strict'):
        """str.encode('utf-8'): the identity on ASCII strings, raises
        UnicodeEncodeError iff the string contains a lone surrogate."""
        if encoding not in ('utf-8', 'utf8', 'UTF-8'):
            raise OutsideSubset('encode(%r)' % (encoding,))
        ctx = self.I.ctx
        t = z3str(s)
        ctx.used_axioms.add('str.encode(utf-8): identity on ASCII; '
                            'UnicodeEncodeError iff a surrogate is present')
        # syntactic: a concatenation of ASCII literals and of results known to
        # be ASCII (quote, strftime) is ASCII: encode is the identity
        asc = ctx.notes.get('ascii', ())
        if all((spec.lit(p) is not None and all(ord(c) < 128 for c in spec.lit(p)))
               or tid(p) in asc for p in spec.pieces(t)):
            return Sym(t, 'bytes')
        enc_ok = z3.Bool('utf8_encodable(%d)' % tid(t))
        ctx.assume(z3.Implies(z3.InRe(t, spec.ASCII_RE), enc_ok))
        if not ctx.branch(enc_ok, 'utf8-encodable'):
            raise PyExc(self.make_exc('UnicodeEncodeError', 'surrogates'))
        r = spec.utf8_f(t)
        ctx.assume(z3.Implies(z3.InRe(t, spec.ASCII_RE), r == t))
        return Sym(z3.simplify(r), 'bytes')

    def str_split(self, s, sep=None, maxsplit=-1):
        if sep is None:
            raise OutsideSubset('split() on whitespace')
        if isinstance(s, str) and isinstance(sep, str):
            return s.split(sep, maxsplit)
        return self.split_model(z3str(s), sep, maxsplit)

    def split_model(self, t, sep, maxsplit=-1):
        ctx = self.I.ctx
        if not isinstance(sep, str) or len(sep) != 1:
            raise OutsideSubset('split on %r' % (sep,))
        sepv = z3.StringVal(sep)
        if maxsplit != -1:
            # "a-b".split("-", 2): at most 3 parts.  Fork on the number of
            # separators: 0, 1, 2, >2 (the last part keeps further seps).
            if maxsplit != 2:
                raise OutsideSubset('split maxsplit=%r' % (maxsplit,))
            a = ctx.fresh_str('sp')
            b = ctx.fresh_str('sp')
            c = ctx.fresh_str('sp')
            no = lambda x: z3.Not(z3.Contains(x, sepv))
            conds = [
                no(t),
                z3.And(t == z3.Concat(a, sepv, b), no(a), no(b)),
                z3.And(t == z3.Concat(a, sepv, b, sepv, c), no(a), no(b)),
            ]
            d = ctx.fork(conds, 'split-count')
            if d == 0:
                return [mk(t)]
            if d == 1:
                return [mk(a), mk(b)]
            return [mk(a), mk(b), mk(c)]
        # structured string: decompose a concat at literal separators
        pieces = self._concat_pieces(t)
        if pieces is None:
            pieces = [t]
        if pieces is not None:
            lines = [[]]
            ok = True
            for p in pieces:
                l = spec.lit(p)
                if l is not None:
                    segs = l.split(sep)
                    lines[-1].append(z3.StringVal(segs[0]))
                    for sg in segs[1:]:
                        lines.append([z3.StringVal(sg)])
                else:
                    known = sep == '\n' and tid(p) in ctx.notes.get('nonewline', ())
                    if not known and not ctx.entails(
                            z3.Not(z3.Contains(p, sepv))):
                        ok = False
                        break
                    lines[-1].append(p)
            if ok:
                return [mk(z3.Concat(*ln)) if len(ln) > 1 else mk(ln[0])
                        for ln in lines]
        ctx.used_axioms.add('str.split: len>=1; element i has no separator '
                            '(instantiated at accessed indices)')
        n = spec.split_len_f(t, sepv)
        ctx.assume(n >= 1)
        return SymSeq(n, lambda i, t=t, sepv=sepv: spec.split_at_f(
            t, sepv, i if z3.is_expr(i) else z3.IntVal(i)), ('split', t, sepv),
            origin=('split', t, sep))

    def _concat_pieces(self, t):
        if z3.is_string_value(t):
            return [t]
        if z3.is_app(t) and t.decl().kind() == z3.Z3_OP_SEQ_CONCAT:
            out = []
            for c in t.children():
                sub = self._concat_pieces(c)
                out.extend(sub if sub is not None else [c])
            return out
        return None

    # ------------------------------------------------------------------
    # conversions / formatting
    # ------------------------------------------------------------------
    def to_str(self, v):
        I = self.I
        if isinstance(v, str):
            return v
        if is_sym(v):
            if v.ty == 'str':
                return v
            if v.ty == 'int':
                ctx = self.I.ctx
                if ctx.entails(v.t >= 0):
                    r = spec.int_str_f(v.t)
                    ctx.used_axioms.add('str(int) for a non-negative int: an '
                                        'uninterpreted non-empty digit string')
                    spec.mark_digits(ctx, r)
                    key = ('digits', tid(r))
                    if key not in ctx.notes:
                        ctx.notes[key] = True
                        ctx.assume(z3.InRe(r, z3.Plus(z3.Range('0', '9'))))
                    return Sym(r, 'str')
                return mk(z3.If(v.t >= 0, z3.IntToStr(v.t),
                                z3.Concat(z3.StringVal('-'),
                                          z3.IntToStr(-v.t))))
            if v.ty == 'bool':
                return mk(z3.If(v.t, z3.StringVal('True'),
                                z3.StringVal('False')))
            if v.ty == 'bytes':
                raise OutsideSubset('str(bytes)')
        if isinstance(v, bool) or v is None or isinstance(v, int):
            return str(v)
        if isinstance(v, StrSubObj):
            m = I.getattr(v, '__str__', None)
            return v.payload
        if isinstance(v, EnumMember):
            m, owner = v.cls.lookup('__str__')
            if owner is not None:
                return I.call(m, [v], {})
            return '%s.%s' % (v.cls.name, v.attrs['name'])
        if isinstance(v, DateV):
            return Sym(spec.datestr_f(v.us), 'str')
        if isinstance(v, Obj):
            m, owner = v.cls.lookup('__str__')
            if owner is not None and isinstance(m, FuncV):
                return I.call(m, [v], {})
            return self.opaque_str(v)
        if isinstance(v, (tuple, list, dict, ClassV, FuncV)):
            return self.opaque_str(v)
        raise OutsideSubset('str() of %r' % (v,))

    def opaque_str(self, v):
        """an unspecified string (e.g. str(exception), repr(tuple))"""
        key = ('opaque_str', id(v))
        ctx = self.I.ctx
        if key not in ctx.notes:
            self.opaque_counter += 1
            ctx.notes[key] = (v, Sym(ctx.fresh_str('strof'), 'str'))
        return ctx.notes[key][1]

    def format_percent(self, fmt, arg):
        I = self.I
        if not isinstance(fmt, str):
            raise OutsideSubset('%% with symbolic format')
        out = []
        i = 0
        args = None
        mapping = None
        if isinstance(arg, (dict, SymDict)):
            mapping = arg
        elif isinstance(arg, tuple):
            args = list(arg)
        else:
            args = [arg]
        lit = ''
        n = len(fmt)
        while i < n:
            ch = fmt[i]
            if ch != '%':
                lit += ch
                i += 1
                continue
            i += 1
            if i < n and fmt[i] == '%':
                lit += '%'
                i += 1
                continue
            key = None
            if i < n and fmt[i] == '(':
                j = fmt.index(')', i)
                key = fmt[i + 1:j]
                i = j + 1
            width = ''
            while i < n and fmt[i] in '0123456789-':
                width += fmt[i]
                i += 1
            conv = fmt[i]
            i += 1
            if key is not None:
                if mapping is None:
                    raise PyExc(self.make_exc('TypeError', 'format requires a mapping'))
                v = self.index(mapping, key)
            else:
                if not args:
                    raise PyExc(self.make_exc(
                        'TypeError', 'not enough arguments for format string'))
                v = args.pop(0)
            if conv in 'sr':
                sv = self.to_str(v) if conv == 's' else self.repr_of(v)
            elif conv == 'd':
                if isinstance(v, bool) or not (isinstance(v, int) or (
                        is_sym(v) and v.ty == 'int')):
                    raise PyExc(self.make_exc(
                        'TypeError', '%d format: a number is required'))
                sv = self.to_str(v)
            else:
                raise OutsideSubset('format conversion %%%s' % conv)
            if width and width != '0':
                w = int(width)
                if isinstance(sv, str):
                    sv = sv.rjust(w) if w > 0 else sv.ljust(-w)
                else:
                    # padded symbolic text: pad is unspecified spaces
                    pad = I.ctx.fresh_str('pad')
                    I.ctx.assume(z3.InRe(pad, z3.Star(z3.Re(' '))))
                    sv = mk(z3.Concat(pad, z3str(sv)))
            if lit:
                out.append(z3.StringVal(lit))
                lit = ''
            out.append(z3str(sv))
        if args:
            raise PyExc(self.make_exc(
                'TypeError', 'not all arguments converted during string '
                             'formatting'))
        if lit:
            out.append(z3.StringVal(lit))
        if not out:
            return ''
        return mk(z3.Concat(*out)) if len(out) > 1 else mk(out[0])

    def repr_of(self, v):
        if isinstance(v, (int, str, bool)) or v is None:
            return repr(v)
        if isinstance(v, StrSubObj):
            return v.payload
        if isinstance(v, Obj):
            m, owner = v.cls.lookup('__repr__')
            if owner is not None and isinstance(m, FuncV):
                return self.I.call(m, [v], {})
        return self.opaque_str(('repr', v) if not isinstance(v, (Obj, Sym)) else v)

    # ------------------------------------------------------------------
    # operators
    # ------------------------------------------------------------------
    def binop(self, op, a, b):
        I = self.I
        from .fsmodel import ModeV
        if isinstance(a, ModeV) and isinstance(op, ast.BitAnd) and \
                isinstance(b, int) and a.mask is None:
            return ModeV(a.st, b)
        if isinstance(a, ModeV):
            raise OutsideSubset('mode arithmetic')
        if isinstance(op, ast.Mod) and (isinstance(a, str) or (
                is_sym(a) and a.ty == 'str')):
            return self.format_percent(a, b)
        if isinstance(op, ast.Add):
            if isinstance(a, list) and isinstance(b, list):
                return a + b
            if isinstance(a, tuple) and isinstance(b, tuple):
                return a + b
            if _is_str(a) and _is_str(b):
                if isinstance(a, str) and isinstance(b, str):
                    return a + b
                return mk(z3.Concat(z3str(a), z3str(b)))
            if _is_bytes(a) and _is_bytes(b):
                return Sym(z3.Concat(a.t, b.t), 'bytes')
            if _is_str(a) != _is_str(b) and (_is_str(a) or _is_str(b)):
                raise PyExc(self.make_exc('TypeError', 'str + non-str'))
        if isinstance(a, DateV) and isinstance(b, DeltaV) and \
                isinstance(op, (ast.Sub, ast.Add)):
            us = a.us - b.us if isinstance(op, ast.Sub) else a.us + b.us
            us = z3.simplify(us)
            ok = z3.And(us >= 0, us <= DATE_MAX_US)
            if not I.ctx.branch(ok, 'date-in-range'):
                raise PyExc(self.make_exc('OverflowError', 'date value out of range'))
            return DateV(us, a.aware)
        if _is_int(a) and _is_int(b):
            if not is_sym(a) and not is_sym(b):
                a2, b2 = int(a), int(b)
                if isinstance(op, ast.Add):
                    return a2 + b2
                if isinstance(op, ast.Sub):
                    return a2 - b2
                if isinstance(op, ast.Mult):
                    return a2 * b2
                if isinstance(op, ast.BitOr):
                    return a2 | b2
                if isinstance(op, ast.BitAnd):
                    return a2 & b2
                if isinstance(op, ast.FloorDiv) and b2 != 0:
                    return a2 // b2
                if isinstance(op, ast.Mod) and b2 != 0:
                    return a2 % b2
                raise OutsideSubset('int op %s' % type(op).__name__)
            x, y = z3int(a), z3int(b)
            if isinstance(op, ast.Add):
                return mk(x + y)
            if isinstance(op, ast.Sub):
                return mk(x - y)
            if isinstance(op, ast.Mult):
                return mk(x * y)
            raise OutsideSubset('symbolic int op %s' % type(op).__name__)
        raise OutsideSubset('binop %s on %r, %r' % (type(op).__name__, a, b))

    def equals(self, a, b):
        I = self.I
        from .fsmodel import ModeV, sticky_f
        if isinstance(b, ModeV) and not isinstance(a, ModeV):
            a, b = b, a
        if isinstance(a, ModeV):
            import stat as _stat
            if a.mask == _stat.S_ISVTX and b == _stat.S_ISVTX:
                return mk(sticky_f(a.st.sigma, a.st.path))
            raise OutsideSubset('mode comparison')
        if a is b and not is_sym(a):
            return True
        if isinstance(a, StrSubObj):
            a = a.payload
        if isinstance(b, StrSubObj):
            b = b.payload
        if a is None or b is None:
            return a is None and b is None
        if _is_str(a) and _is_str(b):
            if isinstance(a, str) and isinstance(b, str):
                return a == b
            if spec.definitely_different(I.ctx, z3str(a), z3str(b)):
                return False
            return mk(z3str(a) == z3str(b))
        if _is_bytes(a) and _is_bytes(b):
            return mk(a.t == b.t)
        if (is_sym(a) and a.ty == 'bool') or (is_sym(b) and b.ty == 'bool'):
            if _is_boolish(a) and _is_boolish(b):
                return mk(z3bool(a) == z3bool(b))
        if _is_int(a) and _is_int(b):
            if not is_sym(a) and not is_sym(b):
                return a == b
            return mk(z3int(a) == z3int(b))
        if isinstance(a, DateV) and isinstance(b, DateV):
            return mk(a.us == b.us)
        if isinstance(a, (tuple, list)) and isinstance(b, (tuple, list)):
            if type(a) is not type(b) or len(a) != len(b):
                return False
            return self._all_equal(a, b)
        if isinstance(a, TupleObj) and isinstance(b, TupleObj):
            if len(a.items) != len(b.items):
                return False
            return self._all_equal(a.items, b.items)
        if isinstance(a, TupleObj) and isinstance(b, tuple):
            if len(a.items) != len(b):
                return False
            return self._all_equal(a.items, b)
        if isinstance(b, TupleObj) and isinstance(a, tuple):
            return self.equals(b, a)
        if isinstance(a, Obj) and not isinstance(a, EnumMember):
            m, owner = a.cls.lookup('__eq__')
            if owner is not None and isinstance(m, FuncV):
                return I.call(m, [a, b], {})
        if isinstance(b, Obj) and not isinstance(b, EnumMember) and \
                not isinstance(a, Obj):
            m, owner = b.cls.lookup('__eq__')
            if owner is not None and isinstance(m, FuncV):
                return I.call(m, [b, a], {})
        if isinstance(a, (Obj, ClassV, FuncV, BoundMethod)) or \
                isinstance(b, (Obj, ClassV, FuncV, BoundMethod)):
            return a is b
        if type(a) is not type(b) and not (is_sym(a) or is_sym(b)):
            return False
        if isinstance(a, dict) and isinstance(b, dict):
            if a is b:
                return True
            if set(a.keys()) != set(b.keys()):
                return False
            ks = list(a.keys())
            return self._all_equal([a[k] for k in ks], [b[k] for k in ks])
        if is_sym(a) != is_sym(b) or (is_sym(a) and a.ty != b.ty):
            # e.g. symbolic str vs int
            return False
        if isinstance(a, SymDict) or isinstance(b, SymDict):
            return a is b
        raise OutsideSubset('== on %r, %r' % (a, b))

    def _all_equal(self, xs, ys):
        conj = []
        for x, y in zip(xs, ys):
            r = self.equals(x, y)
            if r is False:
                return False
            if r is True:
                continue
            conj.append(r.t)
        if not conj:
            return True
        return mk(z3.And(*conj))

    def order(self, op, a, b):
        if isinstance(a, tuple) and isinstance(b, tuple):
            I = self.I
            for x, y in zip(a, b):
                if I.truth(self.equals(x, y), 'tuple-cmp-eq'):
                    continue
                return self.order(op, x, y)
            return self.order(op, len(a), len(b))
        if _is_boolish(a) and _is_boolish(b) and (is_sym(a) or is_sym(b)):
            a = mk(z3.If(z3bool(a), z3.IntVal(1), z3.IntVal(0)))
            b = mk(z3.If(z3bool(b), z3.IntVal(1), z3.IntVal(0)))
        if _is_str(a) and _is_str(b) and (is_sym(a) or is_sym(b)):
            x, y = z3str(a), z3str(b)
            if isinstance(op, ast.Lt):
                return mk(x < y)
            if isinstance(op, ast.LtE):
                return mk(x <= y)
            if isinstance(op, ast.Gt):
                return mk(y < x)
            return mk(y <= x)
        if isinstance(a, DateV) and isinstance(b, DateV):
            if a.aware != b.aware:
                raise PyExc(self.make_exc(
                    'TypeError', "can't compare offset-naive and offset-aware datetimes"))
            x, y = a.us, b.us
        elif _is_int(a) and _is_int(b):
            if not is_sym(a) and not is_sym(b):
                return {ast.Lt: a < b, ast.LtE: a <= b, ast.Gt: a > b,
                        ast.GtE: a >= b}[type(op)]
            x, y = z3int(a), z3int(b)
        elif isinstance(a, str) and isinstance(b, str):
            return {ast.Lt: a < b, ast.LtE: a <= b, ast.Gt: a > b,
                    ast.GtE: a >= b}[type(op)]
        elif (a is None or isinstance(a, DateV) or _is_int(a) or _is_str(a)) \
                and (b is None or isinstance(b, DateV) or _is_int(b)
                     or _is_str(b)) and (
                type(a) is not type(b) or a is None):
            raise PyExc(self.make_exc(
                'TypeError', 'ordering not supported between these types'))
        else:
            raise OutsideSubset('ordering of %r, %r' % (a, b))
        if isinstance(op, ast.Lt):
            return mk(x < y)
        if isinstance(op, ast.LtE):
            return mk(x <= y)
        if isinstance(op, ast.Gt):
            return mk(x > y)
        return mk(x >= y)

    def contains(self, container, x):
        I = self.I
        if isinstance(container, SymDict):
            if not isinstance(x, str):
                raise OutsideSubset('symbolic key in environ')
            p, _v = container.entry(x)
            return mk(p)
        if isinstance(container, dict):
            if is_sym(x) or any(is_sym(y) for y in container):
                return self.contains(list(container.keys()), x)
            return x in container
        if _is_str(container):
            if isinstance(container, str) and isinstance(x, str):
                return x in container
            return mk(z3.Contains(z3str(container), z3str(x)))
        if isinstance(container, SetV):
            container = container.items
        if isinstance(container, (list, tuple, frozenset)):
            disj = []
            for y in container:
                r = self.equals(x, y)
                if r is True:
                    return True
                if r is False:
                    continue
                disj.append(r.t)
            if not disj:
                return False
            return mk(z3.Or(*disj))
        if isinstance(container, TupleObj):
            return self.contains(container.items, x)
        if isinstance(container, RangeV):
            return mk(z3.And(z3int(x) >= z3int(container.start),
                             z3int(x) < z3int(container.stop)))
        raise OutsideSubset('in on %r' % (container,))

    def index(self, o, k):
        I = self.I
        if isinstance(o, SymDict):
            if not isinstance(k, str):
                raise OutsideSubset('environ[symbolic]')
            p, v = o.entry(k)
            if I.ctx.branch(p, 'env-has-' + k):
                return mk(v)
            raise PyExc(self.make_exc('KeyError', k))
        if isinstance(o, dict):
            if is_sym(k):
                if k.ty == 'bool' and set(o.keys()) == {True, False}:
                    return o[True] if I.ctx.branch(k.t, 'dict-bool-key') \
                        else o[False]
            key = self.dict_find(o, k)
            if key is _NOKEY:
                raise PyExc(self.make_exc('KeyError', repr(k)))
            return o[key]
        if isinstance(o, TupleObj):
            o = o.items
        if isinstance(o, (list, tuple)):
            if is_sym(k) and k.ty == 'int':
                n = len(o)
                pos = list(range(-n, n))
                conds = [k.t == p for p in pos]
                conds.append(z3.Or(k.t >= n, k.t < -n))
                d = I.ctx.fork(conds, 'list-index')
                if d == len(pos):
                    raise PyExc(self.make_exc('IndexError', 'list index out of range'))
                return o[pos[d]]
            if is_sym(k):
                raise OutsideSubset('list[symbolic]')
            if not isinstance(k, int):
                raise PyExc(self.make_exc('TypeError', 'bad index'))
            if k >= len(o) or k < -len(o):
                raise PyExc(self.make_exc('IndexError', 'index out of range'))
            return o[k]
        if isinstance(o, RangeV):
            if isinstance(k, int) and not is_sym(o.start) and \
                    not is_sym(o.stop):
                try:
                    return range(o.start, o.stop)[k]
                except IndexError:
                    raise PyExc(self.make_exc('IndexError', 'range index'))
            n = z3int(o.stop) - z3int(o.start)
            if isinstance(k, int) and k in (0, -1):
                if not I.ctx.branch(n > 0, 'range-nonempty'):
                    raise PyExc(self.make_exc('IndexError', 'range index'))
                return mk(z3int(o.start)) if k == 0 else mk(z3int(o.stop) - 1)
            raise OutsideSubset('range[%r]' % (k,))
        if _is_str(o):
            if isinstance(o, str) and isinstance(k, int):
                try:
                    return o[k]
                except IndexError:
                    raise PyExc(self.make_exc('IndexError', 'string index'))
            t = z3str(o)
            if isinstance(k, int) and k >= 0:
                if not I.ctx.branch(z3.Length(t) > k, 'str-index-ok'):
                    raise PyExc(self.make_exc('IndexError', 'string index'))
                return mk(z3.SubString(t, k, 1))
            raise OutsideSubset('str[%r]' % (k,))
        if isinstance(o, SymSeq):
            if isinstance(k, int) and k >= 0:
                if not I.ctx.branch(o.length > k, 'seq-index-ok'):
                    raise PyExc(self.make_exc('IndexError', 'list index'))
                return mk(o.at(k))
            raise OutsideSubset('symseq[%r]' % (k,))
        if isinstance(o, _TypingThing):
            return o
        if isinstance(o, ClassV):
            return o   # Generic[...] style subscripts of classes
        raise OutsideSubset('subscript of %r' % (o,))

    def slice(self, o, lo, hi):
        if isinstance(o, (list, tuple)) and not is_sym(lo) and not is_sym(hi):
            return o[lo:hi]
        if isinstance(o, str) and not is_sym(lo) and not is_sym(hi):
            return o[lo:hi]
        if _is_str(o):
            t = z3str(o)
            n = z3.Length(t)
            if hi is None and lo is not None and is_sym(lo):
                # structural: s[len(prefix):] where s = prefix ++ rest
                ctx = self.I.ctx
                ps = spec.cpieces(ctx, t)
                for k in range(1, len(ps) + 1):
                    pre = spec.cat(ps[:k])
                    if ctx.entails(z3int(lo) == z3.Length(pre)):
                        return mk(spec.cat(ps[k:]))

            def norm(v, default):
                if v is None:
                    return default
                x = z3int(v)
                if isinstance(v, int):
                    if v >= 0:
                        return z3.If(x > n, n, x)
                    return z3.If(n + x < 0, z3.IntVal(0), n + x)
                return z3.If(x < 0, z3.If(n + x < 0, z3.IntVal(0), n + x),
                             z3.If(x > n, n, x))
            a = norm(lo, z3.IntVal(0))
            b = norm(hi, n)
            ln = z3.If(b - a < 0, z3.IntVal(0), b - a)
            return mk(z3.SubString(t, a, ln))
        raise OutsideSubset('slice of %r' % (o,))

    # ------------------------------------------------------------------
    # builtins
    # ------------------------------------------------------------------
    def _init_builtins(self):
        b = self.builtins
        for k, c in self.exc_classes.items():
            if '.' not in k:
                b[k] = c
        b['object'] = self.object_cls
        b['tuple'] = self.tuple_cls
        b['str'] = self.str_cls
        b['int'] = self.int_cls
        b['bool'] = self.bool_cls
        b['list'] = self.list_cls
        b['dict'] = self.dict_cls
        b['type'] = self.type_cls
        b['True'] = True
        b['False'] = False
        b['None'] = None
        for name in ('len', 'isinstance', 'issubclass', 'sorted', 'enumerate',
                     'range', 'map', 'print', 'iter', 'super', 'repr',
                     'property', 'staticmethod', 'classmethod', 'getattr',
                     'hasattr', 'open', 'set', 'next', 'min', 'max', 'any',
                     'all', 'zip', 'id', 'callable', 'input'):
            fn = getattr(self, 'bi_' + name)
            b[name] = Builtin(name, fn)

    def bi_len(self, I, a, k):
        v = a[0]
        if isinstance(v, (list, tuple, dict, str, frozenset)):
            return len(v)
        if isinstance(v, SetV):
            return len(v.items)
        if isinstance(v, TupleObj):
            return len(v.items)
        if _is_str(v) or _is_bytes(v):
            return mk(z3.Length(v.t))
        if isinstance(v, SymSeq):
            return mk(v.length)
        if isinstance(v, GenV):
            raise PyExc(self.make_exc(
                'TypeError', "object of type 'generator' has no len()"))
        if isinstance(v, Obj):
            m = I.getattr(v, '__len__', None)
            if m is not None:
                return I.call(m, [], {})
        raise OutsideSubset('len of %r' % (v,))

    def bi_isinstance(self, I, a, k):
        v, c = a
        classes = c if isinstance(c, tuple) else (c,)
        for cl in classes:
            if cl is self.int_cls:
                if (_is_int(v) and not _is_boolish(v)) or _is_boolish(v):
                    return True
                continue
            if cl is self.str_cls:
                if _is_str(v) or isinstance(v, StrSubObj):
                    return True
                continue
            if cl is self.list_cls:
                if isinstance(v, list):
                    return True
                continue
            if cl is self.tuple_cls:
                if isinstance(v, (tuple, TupleObj)):
                    return True
                continue
            if not isinstance(cl, ClassV):
                raise OutsideSubset('isinstance(_, %r)' % (cl,))
            if isinstance(v, Obj) and v.cls.issubclass(cl):
                return True
        return False

    def bi_issubclass(self, I, a, k):
        return a[0].issubclass(a[1])

    def bi_sorted(self, I, a, k):
        """sorted(xs, key=f) for a concrete-shape list: keys are computed in
        order, every pair of keys is compared (so an incomparable pair raises
        TypeError, as some comparison would in CPython), and the result is an
        order-respecting permutation (forked; n <= 4)."""
        xs = list(I.iterate(a[0]))
        key = k.get('key')
        if k.get('reverse'):
            raise OutsideSubset('sorted(reverse=...)')
        I.ctx.used_axioms.add('sorted(): computes all keys, raises TypeError '
                              'iff some pair of keys is incomparable, returns '
                              'a stable order-respecting permutation')
        keys = [I.call(key, [x], {}) if key is not None else x for x in xs]
        n = len(xs)
        if n > 4:
            raise OutsideSubset('sorted() of more than 4 elements')
        lt = {}
        for i in range(n):
            for j in range(n):
                if i != j:
                    lt[(i, j)] = self.order(ast.Lt(), keys[i], keys[j])
        import itertools
        conds = []
        perms = list(itertools.permutations(range(n)))
        for perm in perms:
            c = []
            for u in range(n - 1):
                i, j = perm[u], perm[u + 1]
                # stable: i before j iff key_i < key_j, or equal and i < j
                if i < j:
                    c.append(z3.Not(z3bool(lt[(j, i)])))
                else:
                    c.append(z3bool(lt[(i, j)]))
            conds.append(z3.And(*c) if c else z3.BoolVal(True))
        if n <= 1:
            return list(xs)
        d = I.ctx.fork(conds, 'sorted-perm')
        return [xs[i] for i in perms[d]]

    def bi_enumerate(self, I, a, k):
        items = list(I.iterate(a[0]))
        start = a[1] if len(a) > 1 else k.get('start', 0)
        return [(start + i, x) for i, x in enumerate(items)]

    def bi_range(self, I, a, k):
        if len(a) == 1:
            return RangeV(0, a[0])
        if len(a) == 2:
            return RangeV(a[0], a[1])
        raise OutsideSubset('range with step')

    def bi_map(self, I, a, k):
        f, it = a
        return [I.call(f, [x], {}) for x in I.iterate(it)]

    def bi_zip(self, I, a, k):
        return list(zip(*[list(I.iterate(x)) for x in a]))

    def bi_list(self, I, a, k):
        if not a:
            return []
        if isinstance(a[0], SymSeq):
            return a[0]
        return list(I.iterate(a[0]))

    def bi_set(self, I, a, k):
        if not a:
            return SetV()
        xs = list(I.iterate(a[0]))
        if all(isinstance(x, (str, int, bool, type(None))) and not is_sym(x)
               for x in xs):
            return frozenset(xs)
        out = SetV()
        for x in xs:
            self._set_add(I, out, x)
        return out

    def _symseq_append(self, I, o, x):
        I.heap_write(o, 'append')
        old_len, old_at = o.length, o.at
        xt = z3str(x)
        o.at = lambda i, old_at=old_at, old_len=old_len, xt=xt: z3.If(
            (i if z3.is_expr(i) else z3.IntVal(i)) == old_len, xt, old_at(i))
        o.length = z3.simplify(old_len + 1)
        return None

    def _set_add(self, I, o, x):
        r = self.contains(o, x)
        if r is True:
            return None
        if r is not False and I.ctx.branch(r.t, 'already-in-set'):
            return None
        I.heap_write(o, 'add')
        o.items.append(x)
        return None

    def bi_int(self, I, a, k):
        v = a[0]
        if _is_int(v):
            return v
        if isinstance(v, str):
            try:
                return int(v)
            except ValueError:
                raise PyExc(self.make_exc('ValueError', 'invalid literal'))
        if _is_str(v):
            I.ctx.used_axioms.add('int(text): uninterpreted int_ok/int_val')
            if not I.ctx.branch(spec.int_ok_f(v.t), 'int-ok'):
                raise PyExc(self.make_exc('ValueError', 'invalid literal'))
            return mk(spec.int_val_f(v.t))
        raise OutsideSubset('int(%r)' % (v,))

    def bi_print(self, I, a, k):
        stream = k.get('file')
        name = stream.name if isinstance(stream, StreamV) else 'stdout'
        parts = [self.to_str(x) for x in a]
        text = self.str_join(' ', parts) if parts else ''
        I.ctx.events.append(('print', name, text))
        if stream is not None and not isinstance(stream, StreamV):
            w = I.getattr(stream, 'write', None)
            if w is not None:
                I.call(w, [self.binop(ast.Add(), text, '\n')], {})
        return None

    def bi_iter(self, I, a, k):
        v = a[0]
        if isinstance(v, RangeV):
            return v
        return IterV(I.iterate(v))

    def bi_next(self, I, a, k):
        it = I.iterate(a[0])
        try:
            return next(it)
        except StopIteration:
            raise PyExc(self.make_exc('StopIteration'))

    def bi_super(self, I, a, k):
        return SuperV(a[0], a[1])

    def bi_repr(self, I, a, k):
        return self.repr_of(a[0])

    def bi_property(self, I, a, k):
        return PropertyV(a[0])

    def bi_staticmethod(self, I, a, k):
        return StaticM(a[0])

    def bi_classmethod(self, I, a, k):
        return ClassM(a[0])

    def bi_getattr(self, I, a, k):
        if len(a) > 2:
            return I.getattr(a[0], a[1], a[2])
        return I.getattr(a[0], a[1])

    def bi_hasattr(self, I, a, k):
        sentinel = object()
        return I.getattr(a[0], a[1], sentinel) is not sentinel

    def bi_open(self, I, a, k):
        from . import fsmodel
        return fsmodel.open_model(I, a, k)

    def _minmax(self, I, a, k, is_min):
        if k:
            raise OutsideSubset('min/max with key')
        xs = list(a) if len(a) > 1 else list(I.iterate(a[0]))
        if not xs:
            raise PyExc(self.make_exc('ValueError', 'empty sequence'))
        if all(isinstance(x, int) and not isinstance(x, bool) for x in xs):
            return min(xs) if is_min else max(xs)
        if all(_is_int(x) for x in xs):
            r = z3int(xs[0])
            for x in xs[1:]:
                y = z3int(x)
                r = z3.If(y < r, y, r) if is_min else z3.If(y > r, y, r)
            return mk(r)
        raise OutsideSubset('min/max of non-integers')

    def bi_min(self, I, a, k):
        return self._minmax(I, a, k, True)

    def bi_max(self, I, a, k):
        return self._minmax(I, a, k, False)

    def bi_any(self, I, a, k):
        for x in I.iterate(a[0]):
            if I.truth(x):
                return True
        return False

    def bi_all(self, I, a, k):
        for x in I.iterate(a[0]):
            if not I.truth(x):
                return False
        return True

    def bi_id(self, I, a, k):
        return id(a[0])

    def bi_callable(self, I, a, k):
        return isinstance(a[0], (FuncV, BoundMethod, Builtin, ClassV))

    def bi_input(self, I, a, k):
        """input(prompt): a line without its newline, EOFError at end of
        input, KeyboardInterrupt; recorded as ('input', prompt, reply)"""
        ctx = I.ctx
        d = ctx.choose(3, 'input()')
        prompt = a[0] if a else ''
        if d == 1:
            ctx.events.append(('input', prompt, None))
            raise PyExc(self.make_exc('EOFError', 'EOF when reading a line'))
        if d == 2:
            ctx.events.append(('input', prompt, None))
            raise PyExc(self.make_exc('KeyboardInterrupt', ''))
        r = ctx.fresh_str('stdin-line')
        ctx.assume(z3.Not(z3.Contains(r, z3.StringVal('\n'))))
        ctx.events.append(('input', prompt, r))
        return Sym(r, 'str')

    # ------------------------------------------------------------------
    # library registry (dotted name -> value)
    # ------------------------------------------------------------------
    def _init_registry(self):
        r = self.registry
        B = Builtin

        def pure(name, fn):
            r[name] = B(name, fn)

        pure('posixpath.basename', lambda I, a, k: mk(
            spec.basename(I.ctx, z3str(a[0]))))
        pure('posixpath.dirname', lambda I, a, k: mk(
            spec.dirname(I.ctx, z3str(a[0]))))
        pure('posixpath.join', lambda I, a, k: mk(
            spec.join(*[z3str(x) for x in a], ctx=I.ctx)))
        pure('posixpath.normpath', lambda I, a, k: mk(
            spec.normpath(I.ctx, z3str(a[0]))))
        pure('posixpath.abspath', lambda I, a, k: mk(
            spec.abspath(I.ctx, z3str(a[0]))))
        r['posixpath.sep'] = '/'
        r['os.sep'] = '/'
        r['os.curdir'] = '.'
        r['posixpath.curdir'] = '.'
        for nm, val in (('O_WRONLY', 1), ('O_CREAT', 0o100), ('O_EXCL', 0o200),
                        ('O_RDONLY', 0), ('O_RDWR', 2), ('O_TRUNC', 0o1000),
                        ('O_APPEND', 0o2000), ('F_OK', 0)):
            r['os.' + nm] = val
        import errno as _errno
        for nm in dir(_errno):
            if nm.startswith('E'):
                r['errno.' + nm] = getattr(_errno, nm)
        import stat as _stat
        for nm in ('S_ISVTX', 'S_IXUSR', 'S_IRWXU'):
            r['stat.' + nm] = getattr(_stat, nm)
        r['stat.S_IMODE'] = B('stat.S_IMODE', self.lib_s_imode)
        r['shutil.Error'] = self.exc_classes['shutil.Error']
        # urllib
        pure('urllib.parse.quote', self.lib_quote)
        pure('urllib.parse.unquote', lambda I, a, k: self.lib_unquote(
            I, a, k, spec.unquote_f, 'unquote'))
        pure('urllib.parse.unquote_plus', lambda I, a, k: self.lib_unquote(
            I, a, k, spec.unquote_plus_f, 'unquote_plus'))
        # typing / abc / six / enum
        r['typing.NamedTuple'] = B('typing.NamedTuple', self.lib_namedtuple)
        r['typing.cast'] = B('typing.cast', lambda I, a, k: a[1])
        r['typing.TypeVar'] = B('typing.TypeVar', lambda I, a, k:
                                _TypingThing('TypeVar'))
        r['typing.Generic'] = self.generic_marker
        r['typing.Protocol'] = self.protocol_marker
        r['typing_extensions.Protocol'] = self.protocol_marker
        r['abc.abstractmethod'] = B('abstractmethod', lambda I, a, k: a[0])
        r['abc.ABCMeta'] = _TypingThing('ABCMeta')
        r['abc.ABC'] = self.abc_marker
        r['six.add_metaclass'] = B('six.add_metaclass', lambda I, a, k: B(
            'add_metaclass-decorator', lambda I2, a2, k2: a2[0]))
        r['six.text_type'] = self.str_cls
        r['six.moves.range'] = self.builtins['range']
        r['six.moves.input'] = B('input', self.bi_input)
        r['posixpath.commonprefix'] = B('commonprefix', self.lib_commonprefix)
        r['posixpath.split'] = B('posixpath.split', lambda I, a, k: (
            mk(spec.dirname(I.ctx, z3str(a[0]))), mk(spec.basename(I.ctx, z3str(a[0])))))
        r['re.escape'] = B('re.escape', self.lib_re_escape)
        r['re.sub'] = B('re.sub', self.lib_re_sub)
        r['re.error'] = self.exc_classes['re.error']
        r['enum.Enum'] = self.enum_cls
        r['fnmatch.fnmatchcase'] = B('fnmatchcase', self.lib_fnmatchcase)
        r['fnmatch.fnmatch'] = B('fnmatch', self.lib_fnmatch)
        # datetime
        dt = ClassV('datetime', 'datetime', [self.object_cls])
        dt.compute_mro()
        dt.builtin_kind = 'datetime'
        dt.attrs['strptime'] = StaticM(B('datetime.strptime',
                                         self.lib_strptime))
        dt.attrs['now'] = StaticM(B('datetime.now', self.lib_now))
        # UTC "now": some other instant on the (naive, local) time axis the
        # DeletionDate values live on - never interchangeable with now()
        dt.attrs['utcnow'] = StaticM(B('datetime.utcnow', self.lib_now))
        dt.attrs['min'] = DateV(z3.IntVal(0))
        dt.attrs['max'] = DateV(z3.IntVal(DATE_MAX_US))
        self.datetime_cls = dt
        r['datetime.datetime'] = dt
        r['datetime.timedelta'] = B('timedelta', self.lib_timedelta)
        r['copy.copy'] = B('copy.copy', lambda I, a, k: a[0])
        r['pprint.pformat'] = B('pformat', lambda I, a, k: self.repr_of(a[0]))
        r['random.randint'] = B('random.randint', self.lib_randint)
        r['logging.getLogger'] = B('logging.getLogger', self.lib_get_logger)
        r['logging.StreamHandler'] = B('logging.StreamHandler',
                                       lambda I, a, k: None)
        r['logging.WARNING'] = 30
        r['logging.Logger'] = _TypingThing('Logger')

    def lib_get_logger(self, I, a, k):
        o = Obj(self.object_cls)
        o.attrs['setLevel'] = Builtin('Logger.setLevel', lambda I, a, k: None)
        o.attrs['addHandler'] = Builtin('Logger.addHandler',
                                        lambda I, a, k: None)

        def warning(I2, a2, k2):
            # logging.StreamHandler() writes to stderr
            I2.ctx.events.append(('write', 'stderr', a2[0]))
            return None
        o.attrs['warning'] = Builtin('Logger.warning', warning)
        return o

    def lib_randint(self, I, a, k):
        v = I.ctx.fresh_int('rand')
        I.ctx.assume(z3.And(v >= z3int(a[0]), v <= z3int(a[1])))
        return mk(v)

    def lib_namedtuple(self, I, a, k):
        name, fields = a[0], a[1]
        names = [f[0] for f in fields]
        return self.make_namedtuple(name, names, 'typing')

    def lib_quote(self, I, a, k):
        s = a[0]
        safe = a[1] if len(a) > 1 else k.get('safe', '/')
        if not isinstance(safe, str):
            raise OutsideSubset('quote with symbolic safe set')
        if len(a) > 2 or 'encoding' in k or 'errors' in k:
            raise OutsideSubset('quote with encoding/errors')
        ctx = I.ctx
        t = z3str(s)
        if isinstance(s, str):
            import urllib.parse as _up
            try:
                real = _up.quote(s, safe)
            except UnicodeEncodeError:
                raise PyExc(self.make_exc('UnicodeEncodeError', 'surrogates'))
            ctx.assume(spec.quote_f(t, z3.StringVal(safe)) == z3.StringVal(real))
            return real
        ctx.used_axioms.add(
            'urllib.parse.quote: enc(utf8(s)); output over ALWAYS_SAFE+safe+%; '
            'UnicodeEncodeError iff s has a lone surrogate')
        ok = z3.Bool('utf8_encodable(%d)' % tid(t))
        ctx.assume(z3.Implies(z3.InRe(t, spec.ASCII_RE), ok))
        if not ctx.branch(ok, 'quote-encodable'):
            raise PyExc(self.make_exc('UnicodeEncodeError', 'surrogates'))
        r = spec.quote_f(t, z3.StringVal(safe))
        alphabet = quote_alphabet_re(safe)
        ctx.assume(z3.InRe(r, alphabet))
        ctx.assume((r == spec.EMPTY) == (t == spec.EMPTY))
        ctx.notes.setdefault('quote_calls', []).append((t, safe, r))
        ctx.notes.setdefault('ascii', set()).add(tid(r))
        if '\n' not in safe:
            ctx.notes.setdefault('nonewline', set()).add(tid(r))
            ctx.assume(z3.Not(z3.Contains(r, z3.StringVal('\n'))))
        return mk(r)

    def lib_unquote(self, I, a, k, fn, name):
        if len(a) > 1 or k:
            raise OutsideSubset('%s with encoding/errors' % name)
        t = z3str(a[0])
        I.ctx.used_axioms.add('urllib.parse.%s: total on str' % name)
        I.ctx.notes.setdefault('unquote_calls', []).append((t, name))
        if isinstance(a[0], str):
            # a literal argument: the real function's value (and the fact
            # that the uninterpreted symbol agrees with it)
            import urllib.parse as _up
            real = getattr(_up, name)(a[0])
            try:
                real.encode('utf-8')
                I.ctx.assume(fn(t) == z3.StringVal(real))
                return real
            except UnicodeEncodeError:
                pass
        return mk(fn(t))

    def lib_fnmatchcase(self, I, a, k):
        I.ctx.used_axioms.add('fnmatch.fnmatchcase uninterpreted glob(s,pat)')
        return mk(spec.glob_f(z3str(a[0]), z3str(a[1])))

    def lib_fnmatch(self, I, a, k):
        # posix: normcase is the identity, so fnmatch == fnmatchcase
        return self.lib_fnmatchcase(I, a, k)

    def lib_strptime(self, I, a, k):
        text, fmt = a
        if not isinstance(fmt, str):
            raise OutsideSubset('strptime symbolic format')
        ctx = I.ctx
        ctx.used_axioms.add('datetime.strftime/strptime axioms')
        f = z3.StringVal(fmt)
        t = z3str(text)
        ok = spec.strptime_ok_f(f, t)
        ctx.notes.setdefault('strptime_formats', []).append(fmt)
        if isinstance(text, str) and '%z' not in fmt and '%Z' not in fmt:
            import datetime as _dt
            try:
                d = _dt.datetime.strptime(text, fmt)
            except ValueError:
                ctx.assume(z3.Not(ok))
                raise PyExc(self.make_exc('ValueError', 'time data does not match'))
            us = (d - _dt.datetime(1, 1, 1)) // _dt.timedelta(microseconds=1)
            ctx.assume(z3.And(ok, spec.strptime_val_f(f, t) == us))
            return DateV(z3.IntVal(us))
        # strptime(prefix + strftime(d, F), prefix + F) = d truncated to
        # seconds, for 1000 <= year (axiom of the datetime model)
        ps = spec.pieces(t)
        if len(ps) == 2 and spec.lit(ps[0]) is not None and z3.is_app(ps[1]) \
                and ps[1].decl().name() == 'strftime':
            pre = spec.lit(ps[0])
            wfmt = spec.lit(ps[1].arg(0))
            d_us = ps[1].arg(1)
            if wfmt is not None and fmt == pre + wfmt and \
                    wfmt == '%Y-%m-%dT%H:%M:%S':
                big = d_us >= 31536000000000 * 1000
                ctx.assume(z3.Implies(big, ok))
                ctx.assume(z3.Implies(big, spec.strptime_val_f(f, t) ==
                                      d_us - d_us % 1000000))
        if not ctx.branch(ok, 'strptime-ok'):
            raise PyExc(self.make_exc('ValueError', 'time data does not match'))
        us = spec.strptime_val_f(f, t)
        ctx.assume(z3.And(us >= 0, us <= DATE_MAX_US))
        return DateV(us, aware='%z' in fmt or '%Z' in fmt)

    def lib_s_imode(self, I, a, k):
        """stat.S_IMODE(st_mode): the permission bits as an integer in
        0..0o7777 (uninterpreted per state/path)"""
        from .fsmodel import ModeV, perm_f
        m = a[0]
        if not isinstance(m, ModeV) or m.mask is not None:
            raise OutsideSubset('stat.S_IMODE of %r' % (m,))
        t = perm_f(m.st.sigma, m.st.path, z3.BoolVal(bool(m.st.follow)))
        I.ctx.assume(z3.And(t >= 0, t <= 0o7777))
        return mk(t)

    def lib_commonprefix(self, I, a, k):
        """os.path.commonprefix([a, b]): the longest common prefix, character
        by character (NOT component-wise)"""
        xs = list(I.iterate(a[0]))
        if len(xs) != 2:
            raise OutsideSubset('commonprefix of %d strings' % len(xs))
        x, y = z3str(xs[0]), z3str(xs[1])
        ctx = I.ctx
        r = ctx.fresh_str('commonprefix')
        n = z3.Length(r)
        ctx.assume(z3.And(z3.PrefixOf(r, x), z3.PrefixOf(r, y)))
        ctx.assume(z3.Or(n == z3.Length(x), n == z3.Length(y),
                         z3.SubString(x, n, 1) != z3.SubString(y, n, 1)))
        return mk(r)

    def lib_re_escape(self, I, a, k):
        return mk(spec.re_escape_f(z3str(a[0])))

    def lib_re_sub(self, I, a, k):
        """re.sub(pattern, repl, string) for the two pattern shapes of the
        tree: '^' + re.escape(x) (prefix replacement, never raises) and a
        literal pattern (uninterpreted result).  Any other pattern - in
        particular one built from un-escaped text - may be an invalid regular
        expression: re.error on one branch."""
        pat, repl, text = a[0], a[1], a[2]
        ctx = I.ctx
        pt = z3.simplify(z3str(pat))
        ps = spec.pieces(pt)
        if len(ps) == 2 and spec.lit(ps[0]) == '^' and z3.is_app(ps[1]) and \
                ps[1].decl().name() == 're_escape':
            x = ps[1].arg(0)
            t = z3str(text)
            r = z3str(repl)
            if isinstance(repl, str) and ('\\' in repl):
                raise OutsideSubset('re.sub replacement with backslash')
            hit = z3.And(z3.PrefixOf(x, t))
            return mk(z3.If(hit, z3.Concat(r, z3.SubString(
                t, z3.Length(x), z3.Length(t) - z3.Length(x))), t))
        if isinstance(pat, str):
            import re as _re
            try:
                _re.compile(pat)
            except _re.error:
                raise PyExc(self.make_exc('re.error', 'invalid pattern'))
            if isinstance(text, str) and isinstance(repl, str):
                return _re.sub(pat, repl, text)
            return mk(spec.re_sub_f(z3.StringVal(pat), z3str(repl), z3str(text)))
        ctx.used_axioms.add('re: a pattern built from un-escaped text may be invalid')
        if not ctx.branch(spec.re_valid_f(pt), 're-pattern-valid'):
            raise PyExc(self.make_exc('re.error', 'invalid pattern'))
        return mk(spec.re_sub_f(pt, z3str(repl), z3str(text)))

    def lib_now(self, I, a, k):
        us = I.ctx.fresh_int('now')
        I.ctx.assume(z3.And(us >= 0, us <= DATE_MAX_US))
        return DateV(us)

    def lib_timedelta(self, I, a, k):
        if a or set(k) != {'days'}:
            raise OutsideSubset('timedelta(%r, %r)' % (a, k))
        d = z3int(k['days'])
        ok = z3.And(d >= -999999999, d <= 999999999)
        if not I.ctx.branch(ok, 'timedelta-ok'):
            raise PyExc(self.make_exc('OverflowError', 'days out of range'))
        return DeltaV(z3.simplify(d * DAY_US))


ALWAYS_SAFE = ('ABCDEFGHIJKLMNOPQRSTUVWXYZabcdefghijklmnopqrstuvwxyz'
               '0123456789_.-~')


def quote_alphabet_re(safe):
    chars = sorted(set(ALWAYS_SAFE + safe + '%'))
    return z3.Star(z3.Union(*[z3.Re(c) for c in chars]))


class _TypingThing(object):
    def __init__(self, name):
        self.name = name

    def __repr__(self):
        return '<typing %s>' % self.name


def _is_str(v):
    return isinstance(v, str) or (is_sym(v) and v.ty == 'str')


def _is_bytes(v):
    return is_sym(v) and v.ty == 'bytes'


def _is_int(v):
    return (isinstance(v, int)) or (is_sym(v) and v.ty in ('int',))


def _is_boolish(v):
    return isinstance(v, bool) or (is_sym(v) and v.ty == 'bool')
