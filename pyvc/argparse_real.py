"""Run under /venv/bin/python with PYTHONPATH=<repo>: the REAL parsers on the
argument vectors given on stdin (JSON list of [command, argv]); prints a JSON
list of comparable results.  Used by validate.argparse_models."""
import io
import json
import sys
import contextlib


def norm(v):
    if isinstance(v, (list, tuple)):
        return [norm(x) for x in v]
    if hasattr(v, 'name') and hasattr(v, 'value'):
        return 'enum:' + v.name
    if isinstance(v, (str, int, bool)) or v is None:
        return v
    return 'obj:' + type(v).__name__


def run(cmd, argv):
    with contextlib.redirect_stderr(io.StringIO()), \
            contextlib.redirect_stdout(io.StringIO()):
        try:
            if cmd == 'put':
                from trashcli.put.parser import Parser
                r = Parser().parse_args(['trash-put'] + argv)
                d = r._asdict()
                d.pop('options', None)
                d.pop('type', None)
            elif cmd == 'empty':
                from trashcli.empty.parser import Parser
                r = Parser().parse(False, {}, argv, 123, 'trash-empty')
                d = r._asdict() if hasattr(r, '_asdict') else dict(vars(r))
                d.pop('environ', None)
            elif cmd == 'restore':
                from trashcli.restore.restore_arg_parser import RestoreArgParser
                r = RestoreArgParser().parse_restore_args(['trash-restore'] + argv, '/cur/dir')
                d = r._asdict() if hasattr(r, '_asdict') else dict(vars(r))
            else:
                from trashcli.list.parser import Parser
                r = Parser('trash-list').parse_list_args(argv, 'trash-list')
                d = r._asdict() if hasattr(r, '_asdict') else dict(vars(r))
            return {'kind': type(r).__name__,
                    'fields': dict((k, norm(v)) for k, v in d.items())}
        except SystemExit as e:
            return {'kind': 'SystemExit', 'code': e.code}


def main():
    jobs = json.load(sys.stdin)
    print(json.dumps([run(c, a) for c, a in jobs]))


main()
