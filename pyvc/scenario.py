"""Native replays: build a concrete trash directory in a scratch tree, run the
real CLI of the tree under test with /venv/bin/python, snapshot before/after.

Everything happens under a fresh directory below $PYVC_SCRATCH (default
/tmp) that is removed afterwards; only --trash-dir / XDG_DATA_HOME based
layouts are used, so nothing outside the scratch tree is touched."""
import hashlib
import os
import shutil
import stat
import subprocess
import tempfile

REAL_PYTHON = os.environ.get('PYVC_REAL_PYTHON', '/venv/bin/python')


class Sandbox(object):
    def __init__(self, repo):
        self.repo = repo
        base = os.environ.get('PYVC_SCRATCH', '/tmp')
        self.root = tempfile.mkdtemp(prefix='pyvc-replay-', dir=base)
        self.home = os.path.join(self.root, 'home')
        os.makedirs(self.home)
        os.makedirs(os.path.join(self.root, 'vol'))

    def path(self, *parts):
        return os.path.join(self.root, *parts)

    def close(self):
        def onerr(func, p, exc):
            try:
                os.chmod(p, 0o700)
                func(p)
            except Exception:
                pass
        shutil.rmtree(self.root, onerror=onerr)

    def __enter__(self):
        return self

    def __exit__(self, *a):
        self.close()

    # -- building -----------------------------------------------------------
    def make_trash_dir(self, td):
        os.makedirs(os.path.join(td, 'info'), exist_ok=True)
        os.makedirs(os.path.join(td, 'files'), exist_ok=True)

    def add_entry(self, td, name, path='/orig/x', date='2000-01-01T00:00:00',
                  payload='file', raw_info=None, info_name=None):
        self.make_trash_dir(td)
        info = os.path.join(td, 'info', (info_name or name + '.trashinfo'))
        if raw_info is None:
            raw_info = ('[Trash Info]\nPath=%s\n' % path +
                        ('DeletionDate=%s\n' % date if date is not None
                         else '')).encode('utf-8', 'surrogateescape')
        with open(os.fsencode(info), 'wb') as f:
            f.write(raw_info)
        p = os.path.join(td, 'files', name)
        if payload == 'file':
            with open(os.fsencode(p), 'w') as f:
                f.write('payload of %s' % name)
        elif payload == 'dir':
            os.makedirs(os.path.join(p, 'sub'))
            with open(os.path.join(p, 'sub', 'f'), 'w') as f:
                f.write('x')
        elif isinstance(payload, tuple) and payload[0] == 'link':
            os.symlink(payload[1], p)
        return info, p

    # -- running ------------------------------------------------------------
    def run(self, tool, args, env=None, stdin='', cwd=None, timeout=60):
        e = {'PATH': os.environ.get('PATH', ''), 'HOME': self.home,
             'XDG_DATA_HOME': os.path.join(self.home, '.local', 'share'),
             'LANG': 'C.UTF-8', 'LC_ALL': 'C.UTF-8',
             # an ordinary xx_YY.UTF-8 terminal: strict encoding on stdout
             'PYTHONIOENCODING': 'utf-8:strict',
             'PYTHONPATH': self.repo}
        e.update(env or {})
        cmd = [REAL_PYTHON, os.path.join(self.repo, tool)] + list(args)
        try:
            p = subprocess.run(cmd, input=stdin, capture_output=True,
                               text=True, env=e, cwd=cwd or self.root,
                               timeout=timeout, errors='surrogateescape')
            return {'exit': p.returncode, 'stdout': p.stdout[-4000:],
                    'stderr': p.stderr[-4000:], 'cmd': ' '.join(cmd[1:])}
        except subprocess.TimeoutExpired as t:
            return {'exit': None, 'timeout': timeout, 'stdout': '',
                    'stderr': 'TIMEOUT', 'cmd': ' '.join(cmd[1:])}

    def run_faulty(self, tool, args, cfg, env=None, cwd=None, timeout=60):
        """run the tool under pyvc/faultrun.py (mutating os calls counted;
        kill/fail injection)"""
        import json
        e = {'PATH': os.environ.get('PATH', ''), 'HOME': self.home,
             'XDG_DATA_HOME': os.path.join(self.home, '.local', 'share'),
             'LANG': 'C.UTF-8', 'LC_ALL': 'C.UTF-8',
             'PYTHONPATH': self.repo}
        e.update(env or {})
        cfg = dict(cfg)
        cfg.setdefault('log', os.path.join(self.root, 'faultlog.json'))
        driver = os.path.join(os.path.dirname(os.path.abspath(__file__)),
                              'faultrun.py')
        cmd = [REAL_PYTHON, driver, os.path.join(self.repo, tool),
               json.dumps(cfg)] + list(args)
        try:
            p = subprocess.run(cmd, capture_output=True, text=True, env=e,
                               cwd=cwd or self.root, timeout=timeout,
                               errors='surrogateescape')
            out = {'exit': p.returncode, 'stdout': p.stdout[-4000:],
                   'stderr': p.stderr[-4000:]}
        except subprocess.TimeoutExpired:
            out = {'exit': None, 'timeout': timeout, 'stdout': '',
                   'stderr': 'TIMEOUT'}
        try:
            with open(cfg['log']) as f:
                out['ops'] = json.load(f)
        except Exception:
            out['ops'] = None
        out['cmd'] = '%s %s' % (tool, ' '.join(args))
        return out

    # -- observing ----------------------------------------------------------
    def snapshot(self, top=None):
        top = top or self.root
        out = {}
        for d, dirs, files in os.walk(top):
            for n in dirs + files:
                p = os.path.join(d, n)
                st = os.lstat(p)
                rel = os.path.relpath(p, top)
                if stat.S_ISLNK(st.st_mode):
                    out[rel] = ('link', os.readlink(p))
                elif stat.S_ISDIR(st.st_mode):
                    out[rel] = ('dir', stat.S_IMODE(st.st_mode))
                else:
                    with open(p, 'rb') as f:
                        h = hashlib.sha256(f.read()).hexdigest()[:16]
                    out[rel] = ('file', stat.S_IMODE(st.st_mode), h)
        return out


def us_to_text(us):
    import datetime
    d = datetime.datetime(1, 1, 1) + datetime.timedelta(microseconds=us)
    return d.strftime('%Y-%m-%dT%H:%M:%S')
