"""python3-vt -m pyvc selftest | check <Cxx> [--tier quick|thorough] | replay <file>"""
import argparse
import importlib
import json
import os
import sys
import traceback

VERIF = os.path.dirname(os.path.dirname(os.path.abspath(__file__)))
sys.path.insert(0, VERIF)
sys.setrecursionlimit(20000)


def cmd_selftest(args):
    import z3
    import subprocess
    from pyvc.interp import Interp
    print('z3', z3.get_version_string())
    out = subprocess.run(['/usr/bin/cvc5', '--version'], capture_output=True,
                         text=True).stdout.split('\n')[0]
    print(out)
    I = Interp()
    for m in ('trashcli.put.main', 'trashcli.restore.main',
              'trashcli.empty.main', 'trashcli.list.main', 'trashcli.rm.main'):
        I.load_module(m)
    print('parsed %d repo modules from %s' % (len(I.modules), I.repo))
    return 0


def cmd_check(args):
    prop = args.prop.upper()
    tier = args.tier or os.environ.get('VERIF_TIER') or 'quick'
    seed = int(os.environ.get('VERIF_SEED', '0') or 0)
    try:
        mod = importlib.import_module('contracts.%s' % prop.lower())
    except ImportError:
        traceback.print_exc()
        print('no check for %s' % prop)
        return 3
    from pyvc.vc import Session
    from pyvc import report
    try:
        S = Session(prop, repo=args.repo)
        mod.build(S, tier, seed)
        S.discharge()
        extra = {}
        if hasattr(mod, 'finalize_args'):
            extra = mod.finalize_args(S, tier, seed)
        if tier == 'thorough':
            native = thorough_checks(S, mod, prop, seed)
            extra.setdefault('bounded', [])
            extra['bounded'] = list(extra['bounded']) + native
            extra['native'] = native
        code = report.finalize(
            S, prop, tier, seed,
            expected=getattr(mod, 'EXPECTED', []),
            replayers=getattr(mod, 'REPLAYERS', {}),
            kf_classes=getattr(mod, 'KF_CLASSES', {}),
            level_note=getattr(mod, 'LEVEL_NOTE', ''),
            fallback=getattr(mod, '_battery', None),
            **extra)
    except Exception:
        traceback.print_exc()
        print('CHECKER-CRASH %s' % prop)
        return 3
    return code


def thorough_checks(S, mod, prop, seed):
    """thorough tier = quick tier + bounded native/differential checks:
    the property's native battery against the real CLIs of the tree under
    test, and the library-model validation against CPython.  Bounded, never
    counted as proof; a failing battery is a violation with a native witness,
    a failing model validation is a checker failure."""
    import time
    from pyvc import validate
    out = []
    t0 = time.time()
    bat = getattr(mod, '_battery', None)
    if bat is not None:
        try:
            r = bat(S, None, None)
        except Exception:
            r = {'confirmed': False, 'error': traceback.format_exc()[-1500:]}
        out.append({'what': 'native battery of %s against %s' % (
            prop, S.interp.repo), 'kind': 'battery', 'result': r,
            'seconds': round(time.time() - t0, 1), 'counts_as_proof': False})
    try:
        from contracts import leafcheck
        t1 = time.time()
        r = leafcheck.all_leaves(S.interp.repo, leafcheck.leaves_of_session(S))
        out.append({'what': r['what'], 'kind': 'battery', 'result': r,
                    'seconds': round(time.time() - t1, 1), 'counts_as_proof': False})
    except Exception:
        out.append({'what': 'leaf oracles', 'kind': 'battery', 'confirmed': False,
                    'error': traceback.format_exc()[-800:], 'counts_as_proof': False})
    t1 = time.time()
    try:
        r = validate.engine_differential(repo=S.interp.repo)
    except Exception:
        r = {'what': 'engine differential', 'problems': ['crashed: ' +
             traceback.format_exc()[-600:]], 'counts_as_proof': False}
    r['kind'] = 'model-validation'
    r['seconds'] = round(time.time() - t1, 1)
    out.append(r)
    for fn, props in ((validate.posixpath_models, None),
                      (validate.quote_models, ('C02', 'C03', 'C09', 'C20', 'C12')),
                      (validate.datetime_models, ('C03', 'C10', 'C09', 'C20', 'C02')),
                      (validate.argparse_models, ('C01', 'C07', 'C16', 'C14', 'C10',
                                                  'C06', 'C13', 'C19', 'C20'))):
        if props is None or prop in props:
            t1 = time.time()
            r = fn(repo=S.interp.repo) if fn is validate.argparse_models else fn()
            r['kind'] = 'model-validation'
            r['seconds'] = round(time.time() - t1, 1)
            out.append(r)
    return out


def cmd_replay(args):
    with open(args.path) as f:
        doc = json.load(f)
    print('obligation:', doc['obligation'])
    print('solver:', doc.get('solver_log'))
    rep = doc.get('replay') or {}
    print(json.dumps(rep, indent=1)[:4000])
    if rep.get('call') and rep.get('inputs') is not None and \
            rep.get('call_spec'):
        from pyvc.replay import run_real
        cs = rep['call_spec']
        out = run_real(cs['module'], cs['qualname'], cs.get('args', []),
                       self_spec=cs.get('self'))
        print('re-run on the current tree:', json.dumps(out)[:2000])
    return 0


def main():
    ap = argparse.ArgumentParser(prog='pyvc')
    sub = ap.add_subparsers(dest='cmd')
    sub.add_parser('selftest')
    c = sub.add_parser('check')
    c.add_argument('prop')
    c.add_argument('--tier', default=None)
    c.add_argument('--repo', default=None)
    r = sub.add_parser('replay')
    r.add_argument('path')
    args = ap.parse_args()
    if args.cmd == 'selftest':
        sys.exit(cmd_selftest(args))
    if args.cmd == 'check':
        sys.exit(cmd_check(args))
    if args.cmd == 'replay':
        sys.exit(cmd_replay(args))
    ap.print_help()
    sys.exit(3)


main()
