"""Value domain of the pyvc symbolic interpreter.

Concrete Python scalars/containers are represented natively (int, bool, str,
None, list, tuple, dict).  Symbolic scalars are `Sym` (a z3 term tagged with
its Python type).  Everything else is one of the classes below.
"""
import z3


class OutsideSubset(Exception):
    """The construct is not in the supported subset: obligations depending on
    it are *undecided* (exit 2), never violations."""


class ContractOutOfDate(Exception):
    """A contract names something that no longer exists in /repo."""


class PathEnd(Exception):
    """The current path stops here (assume false / loop cut)."""


class Sym(object):
    __slots__ = ('t', 'ty')

    def __init__(self, t, ty):
        self.t = t
        self.ty = ty  # 'int' | 'bool' | 'str' | 'bytes'

    def __repr__(self):
        return 'Sym<%s:%s>' % (self.ty, self.t)

    # Sym objects must never be used as Python truth values by accident
    def __bool__(self):
        raise OutsideSubset('python truth value of symbolic %r' % (self,))


class BytesV(object):
    """bytes value: a z3 String over code points 0..255 (or concrete)."""
    __slots__ = ('t',)

    def __init__(self, t):
        self.t = t


_PIN = {}


def tid(t):
    """id of a z3 term, with the term pinned for the duration of the current
    path: z3 recycles the ids of collected ASTs, so an id may only be used as
    a dictionary key while the term is kept alive"""
    i = t.get_id()
    _PIN[i] = t
    return i


def unpin_all():
    _PIN.clear()


def is_sym(v):
    return isinstance(v, Sym)


def z3str(v):
    if isinstance(v, Sym):
        assert v.ty in ('str', 'bytes'), v
        return v.t
    if isinstance(v, str):
        return z3.StringVal(v)
    if isinstance(v, StrSubObj):
        return z3.StringVal(v.payload)
    raise OutsideSubset('expected str, got %r' % (v,))


def z3int(v):
    if isinstance(v, Sym):
        assert v.ty == 'int', v
        return v.t
    if isinstance(v, bool):
        return z3.IntVal(1 if v else 0)
    if isinstance(v, int):
        return z3.IntVal(v)
    raise OutsideSubset('expected int, got %r' % (v,))


def z3bool(v):
    if isinstance(v, Sym):
        assert v.ty == 'bool', v
        return v.t
    if isinstance(v, bool):
        return z3.BoolVal(v)
    raise OutsideSubset('expected bool, got %r' % (v,))


def _flat(t, out):
    if z3.is_app(t) and t.decl().kind() == z3.Z3_OP_SEQ_CONCAT:
        for c in t.children():
            _flat(c, out)
    else:
        out.append(t)


def canon_str(t):
    """canonical form of a string term: a flat concatenation with adjacent
    literals merged (so that equal strings built in different ways are the
    same term when they are arguments of uninterpreted functions)"""
    if not (z3.is_app(t) and t.decl().kind() == z3.Z3_OP_SEQ_CONCAT):
        return t
    ps = []
    _flat(t, ps)
    merged = []
    for x in ps:
        if z3.is_string_value(x):
            if x.as_string() == '':
                continue
            if merged and z3.is_string_value(merged[-1]):
                a = merged[-1]
                merged[-1] = z3.StringVal(
                    (_decode_z3_string(a) if _has_escape(a) else a.as_string()) +
                    (_decode_z3_string(x) if _has_escape(x) else x.as_string()))
                continue
        merged.append(x)
    if not merged:
        return z3.StringVal('')
    if len(merged) == 1:
        return merged[0]
    return z3.Concat(*merged)


def mk(t):
    """wrap a z3 term into a value, folding literals to Python values."""
    t = z3.simplify(t)
    if z3.is_string(t):
        t = canon_str(t)
    if z3.is_bool(t):
        if z3.is_true(t):
            return True
        if z3.is_false(t):
            return False
        return Sym(t, 'bool')
    if z3.is_int(t):
        if z3.is_int_value(t):
            return t.as_long()
        return Sym(t, 'int')
    if z3.is_string(t):
        if z3.is_string_value(t):
            return t.as_string() if not _has_escape(t) else _decode_z3_string(t)
        return Sym(t, 'str')
    raise OutsideSubset('cannot wrap %r' % (t,))


def _has_escape(t):
    return '\\u{' in t.as_string() or '\\x' in t.as_string()


def _decode_z3_string(t):
    s = t.as_string()
    out = []
    i = 0
    while i < len(s):
        if s.startswith('\\u{', i):
            j = s.index('}', i)
            out.append(chr(int(s[i + 3:j], 16)))
            i = j + 1
        elif s.startswith('\\x', i) and i + 4 <= len(s):
            out.append(chr(int(s[i + 2:i + 4], 16)))
            i += 4
        else:
            out.append(s[i])
            i += 1
    return ''.join(out)


class ClassV(object):
    def __init__(self, name, module, bases, qualname=None):
        self.name = name
        self.module = module
        self.bases = bases
        self.attrs = {}
        self.qualname = qualname or name
        self.nt_fields = None      # NamedTuple field names
        self.is_enum = False
        self.builtin_kind = None   # 'tuple' | 'str' | 'exception' | 'object'
        self.mro = None

    def __repr__(self):
        return '<class %s.%s>' % (self.module, self.qualname)

    def compute_mro(self):
        seqs = [list(b.mro) for b in self.bases] + [list(self.bases)]
        res = [self]
        seqs = [s for s in seqs if s]
        while seqs:
            for s in seqs:
                cand = s[0]
                if not any(cand in t[1:] for t in seqs):
                    break
            else:
                raise OutsideSubset('inconsistent MRO for %s' % self.name)
            res.append(cand)
            seqs = [[x for x in s if x is not cand] for s in seqs]
            seqs = [s for s in seqs if s]
        self.mro = res

    def lookup(self, name, after=None):
        mro = self.mro
        if after is not None:
            mro = mro[mro.index(after) + 1:]
        for c in mro:
            if name in c.attrs:
                return c.attrs[name], c
        return None, None

    def issubclass(self, other):
        return other in self.mro


class Obj(object):
    def __init__(self, cls):
        self.cls = cls
        self.attrs = {}

    def __repr__(self):
        return '<%s obj %s>' % (self.cls.name, sorted(self.attrs))


class TupleObj(Obj):
    """instance of a NamedTuple class or of a tuple subclass"""

    def __init__(self, cls, items):
        Obj.__init__(self, cls)
        self.items = tuple(items)

    def __repr__(self):
        return '%s%r' % (self.cls.name, self.items)


class StrSubObj(Obj):
    """instance of a str subclass (MyEnum)"""

    def __init__(self, cls, payload):
        Obj.__init__(self, cls)
        self.payload = payload

    def __repr__(self):
        return '%s(%r)' % (self.cls.name, self.payload)


class EnumMember(Obj):
    def __init__(self, cls, name, value):
        Obj.__init__(self, cls)
        self.attrs['name'] = name
        self.attrs['value'] = value

    def __repr__(self):
        return '%s.%s' % (self.cls.name, self.attrs['name'])


class FuncV(object):
    def __init__(self, node, module, closure, qualname, cls=None):
        self.node = node
        self.module = module      # ModuleV
        self.closure = closure    # Env or None
        self.qualname = qualname
        self.cls = cls
        self.is_generator = None
        self.defaults = None
        self.kw_defaults = None

    @property
    def key(self):
        # a function that was MOVED to another module keeps the key its
        # contract was written for (set by Interp.lookup when it finds it)
        return getattr(self, 'key_alias', None) or (self.module.name, self.qualname)

    def __repr__(self):
        return '<function %s.%s>' % (self.module.name, self.qualname)


class BoundMethod(object):
    def __init__(self, func, self_obj):
        self.func = func
        self.self_obj = self_obj

    def __repr__(self):
        return '<bound %r of %r>' % (self.func, self.self_obj)


class StaticM(object):
    def __init__(self, func):
        self.func = func


class ClassM(object):
    def __init__(self, func):
        self.func = func


class PropertyV(object):
    def __init__(self, func):
        self.func = func


class Builtin(object):
    """a modelled library function: fn(interp, args, kwargs) -> value"""

    def __init__(self, name, fn, pure=True):
        self.name = name
        self.fn = fn

    def __repr__(self):
        return '<builtin %s>' % self.name


class ModuleV(object):
    def __init__(self, name, path=None):
        self.name = name
        self.path = path
        self.globals = {}
        self.loaded = False
        self.tree = None

    def __repr__(self):
        return '<module %s>' % self.name


class LibModule(object):
    def __init__(self, name):
        self.name = name

    def __repr__(self):
        return '<libmodule %s>' % self.name


class Opaque(object):
    """a library object without a model; using it is OutsideSubset"""

    def __init__(self, name):
        self.name = name

    def __repr__(self):
        return '<opaque %s>' % self.name


class SuperV(object):
    def __init__(self, cls, obj):
        self.cls = cls
        self.obj = obj


class RangeV(object):
    def __init__(self, start, stop):
        self.start = start
        self.stop = stop


class SymSeq(object):
    """abstract sequence of strings with symbolic length, encoded without the
    z3 sequence sort: `length` is a z3 Int, `at(i)` gives the i-th element
    term (an uninterpreted function application); `base` identifies the
    sequence in spec functions."""

    def __init__(self, length, at, base, origin=None):
        self.length = length
        self.at = at
        self.base = base
        self.origin = origin


class SymDict(object):
    """a str->str mapping with symbolic content, concrete-key access only
    (os.environ).  Entries are created lazily per key."""

    def __init__(self, name, ctx_fresh):
        self.name = name
        self._fresh = ctx_fresh
        self.entries = {}

    def entry(self, key):
        if key not in self.entries:
            p = z3.Bool('%s.has[%s]' % (self.name, key))
            v = z3.String('%s[%s]' % (self.name, key))
            self.entries[key] = (p, v)
        return self.entries[key]


class StreamV(object):
    def __init__(self, name):
        self.name = name

    def __repr__(self):
        return '<stream %s>' % self.name


class GenV(object):
    def __init__(self, pygen, func):
        self.pygen = pygen
        self.func = func
        self.done = False


class IterV(object):
    """a builtin iterator over python-level items"""

    def __init__(self, it):
        self.it = it


class PyExc(Exception):
    """an interpreted exception in flight"""

    def __init__(self, value):
        Exception.__init__(self, repr(value))
        self.value = value


class ReturnSig(Exception):
    def __init__(self, value):
        self.value = value


class BreakSig(Exception):
    pass


class ContinueSig(Exception):
    pass


class SetV:
    """a mutable set of possibly symbolic elements (insertion ordered; the
    iteration order of a CPython set is unspecified, so code whose result
    depends on it is outside the subset anyway)"""
    def __init__(self, items=None):
        self.items = list(items or [])

    def __repr__(self):
        return 'SetV(%r)' % (self.items,)
