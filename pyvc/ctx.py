"""Path context: path condition, decisions, obligations, ghost state."""
import time
import os
import z3

from .values import PathEnd, Sym, mk

FEAS_TIMEOUT_MS = int(__import__("os").environ.get("PYVC_FEAS_MS", "300"))


class Obligation(object):
    __slots__ = ('name', 'kind', 'pc', 'goal', 'path_id', 'info', 'expect',
                 'where')

    def __init__(self, name, kind, pc, goal, path_id, info=None,
                 expect='valid', where=None):
        self.name = name
        self.kind = kind
        self.pc = pc          # list of z3 Bool (assumptions)
        self.goal = goal      # z3 Bool to prove (expect == 'valid') or to
        #                       satisfy together with pc (expect == 'sat')
        self.path_id = path_id
        self.info = info or {}
        self.expect = expect
        self.where = where


class Stats(object):
    def __init__(self):
        self.paths = 0
        self.feas_checks = 0
        self.feas_unknown = 0
        self.feas_s = 0.0
        self.slow = []


_SYM_CACHE = {}


def symbols_of(t):
    """names of the uninterpreted constants/functions occurring in t"""
    key = t.get_id()
    r = _SYM_CACHE.get(key)
    if r is not None:
        return r[1]
    out = set()
    seen = set()
    todo = [t]
    while todo:
        x = todo.pop()
        i = x.get_id()
        if i in seen:
            continue
        seen.add(i)
        if z3.is_app(x):
            d = x.decl()
            if d.kind() == z3.Z3_OP_UNINTERPRETED:
                out.add(d.name())
            todo.extend(x.children())
        elif z3.is_quantifier(x):
            todo.append(x.body())
    if len(_SYM_CACHE) > 200000:
        _SYM_CACHE.clear()
    _SYM_CACHE[key] = (t, out)     # the term is pinned: ids are recycled
    return out


class Ctx(object):
    """state of one explored path"""

    def __init__(self, prefix, stats, path_id):
        self.prefix = list(prefix)
        self.pos = 0
        self.decisions = []
        self.alternatives = []
        self.pc = []
        self.obligations = []
        self.stats = stats
        self.path_id = path_id
        self.counter = 0
        self.solver = z3.Solver()
        self.solver.set('timeout', FEAS_TIMEOUT_MS)
        self.ghost = {}
        self.events = []
        self.trace = []          # human-readable branch notes
        self.used_axioms = set()
        self.notes = {}


    # -- fresh symbols ----------------------------------------------------
    def fresh_name(self, hint):
        self.counter += 1
        return '%s!%d' % (hint, self.counter)

    def fresh_str(self, hint='s'):
        return z3.String(self.fresh_name(hint))

    def fresh_int(self, hint='i'):
        return z3.Int(self.fresh_name(hint))

    def fresh_bool(self, hint='b'):
        return z3.Bool(self.fresh_name(hint))

    # -- assumptions -------------------------------------------------------
    def assume(self, f, why=None):
        if isinstance(f, Sym):
            f = f.t
        if f is True:
            return
        if f is False:
            raise PathEnd()
        f = z3.simplify(f)
        if z3.is_true(f):
            return
        if z3.is_false(f):
            raise PathEnd()
        self.pc.append(f)
        self.solver.add(f)

    def _slice(self, f):
        """the assertions of pc connected (through shared uninterpreted
        symbols) to f: the rest of pc is satisfiable on its own as long as pc
        is, so it cannot affect the feasibility of f"""
        want = set(symbols_of(f))
        chosen = []
        rest = [(a, symbols_of(a)) for a in self.pc]
        changed = True
        while changed:
            changed = False
            keep = []
            for a, sy in rest:
                if sy & want:
                    chosen.append(a)
                    if not sy <= want:
                        want |= sy
                        changed = True
                else:
                    keep.append((a, sy))
            rest = keep
        return chosen

    def feasible(self, f=None):
        """is pc (and f) satisfiable?  unknown counts as feasible."""
        t0 = time.time()
        self.stats.feas_checks += 1
        if f is None:
            r = self.solver.check()
        else:
            sl = self._slice(f)
            if len(sl) < len(self.pc):
                s2 = z3.Solver()
                s2.set('timeout', FEAS_TIMEOUT_MS)
                for a in sl:
                    s2.add(a)
                s2.add(f)
                r = s2.check()
            else:
                r = self.solver.check(f)
        dt = time.time() - t0
        self.stats.feas_s += dt
        if dt > 0.25:
            self.stats.slow.append((round(dt, 2), str(r), str(f)[:200]))
        if r == z3.unknown:
            self.stats.feas_unknown += 1
        return r != z3.unsat

    def entails(self, f):
        """does pc entail f (definitely)?"""
        f = z3.simplify(f)
        if z3.is_true(f):
            return True
        if z3.is_false(f):
            return False
        t0 = time.time()
        self.stats.feas_checks += 1
        nf = z3.Not(f)
        sl = self._slice(nf)
        if len(sl) < len(self.pc):
            s2 = z3.Solver()
            s2.set('timeout', FEAS_TIMEOUT_MS)
            for a in sl:
                s2.add(a)
            s2.add(nf)
            r = s2.check()
        else:
            r = self.solver.check(nf)
        self.stats.feas_s += time.time() - t0
        return r == z3.unsat

    # -- decisions -----------------------------------------------------------
    def choose(self, n, label=''):
        """pick one of n alternatives (all assumed worth exploring)."""
        if n == 1:
            return 0
        if self.pos < len(self.prefix):
            d = self.prefix[self.pos]
        else:
            d = 0
            for k in range(n - 1, 0, -1):
                self.alternatives.append(self.decisions + [k])
        self.pos += 1
        self.decisions.append(d)
        if label:
            self.trace.append('%s=%d' % (label, d))
        return d

    def fork(self, conds, label=''):
        """conds: list of z3 Bool (mutually exclusive, jointly exhaustive by
        construction of the caller).  Returns the index taken on this path;
        only feasible alternatives are explored."""
        if self.pos < len(self.prefix):
            d = self.prefix[self.pos]
            self.pos += 1
            self.decisions.append(d)
            self.assume(conds[d])
            if label:
                self.trace.append('%s=%d' % (label, d))
            return d
        feas = []
        for i, c in enumerate(conds):
            c = z3.simplify(c) if not isinstance(c, bool) else z3.BoolVal(c)
            if z3.is_false(c):
                continue
            if z3.is_true(c) or self.feasible(c):
                feas.append(i)
        if not feas:
            raise PathEnd()
        d = feas[0]
        for k in reversed(feas[1:]):
            self.alternatives.append(self.decisions + [k])
        self.pos += 1
        self.decisions.append(d)
        self.assume(conds[d])
        if label:
            self.trace.append('%s=%d' % (label, d))
        return d

    def branch(self, cond, label=''):
        """truth of a z3 Bool under the path condition, forking if open."""
        if isinstance(cond, bool):
            return cond
        cond = z3.simplify(cond)
        if z3.is_true(cond):
            return True
        if z3.is_false(cond):
            return False
        d = self.fork([cond, z3.Not(cond)], label)
        return d == 0

    # -- obligations -----------------------------------------------------------
    def oblige(self, name, goal, kind='post', info=None, where=None):
        if isinstance(goal, Sym):
            goal = goal.t
        if isinstance(goal, bool):
            goal = z3.BoolVal(goal)
        inf = {'trace': list(self.trace)}
        if getattr(self, 'kf_terms', None) is not None:
            inf['terms'] = self.kf_terms
        if info:
            inf.update(info)
        self.obligations.append(
            Obligation(name, kind, list(self.pc), goal, self.path_id, inf,
                       where=where))

    def cover(self, name, info=None):
        """record that this point was reached: pc must be satisfiable"""
        self.obligations.append(
            Obligation(name, 'cover', list(self.pc), z3.BoolVal(True),
                       self.path_id, info, expect='sat'))


class BudgetExceeded(RuntimeError):
    pass


VC_BUDGET_S = float(os.environ.get('PYVC_VC_BUDGET_S', '600'))


def explore(run, stats=None, max_paths=20000):
    """replay-based DFS over decisions.  run(ctx) executes one path."""
    import time
    stats = stats or Stats()
    stack = [[]]
    results = []
    n = 0
    t0 = time.time()
    while stack:
        prefix = stack.pop()
        n += 1
        if n > max_paths:
            raise BudgetExceeded('path budget exceeded (%d paths)' % max_paths)
        if time.time() - t0 > VC_BUDGET_S:
            import collections
            h = collections.Counter()
            for c in results[-200:]:
                for t in c.trace:
                    h[t.split('=')[0]] += 1
            raise BudgetExceeded(
                'time budget of this VC exceeded (%d paths in %.0f s, %d still '
                'open; most frequent decisions: %s)' % (
                    n, VC_BUDGET_S, len(stack),
                    ', '.join('%s x%d' % kv for kv in h.most_common(8))))
        from .values import unpin_all
        unpin_all()
        ctx = Ctx(prefix, stats, n)
        try:
            run(ctx)
        except PathEnd:
            pass
        stats.paths += 1
        for alt in ctx.alternatives:
            stack.append(alt)
        results.append(ctx)
    return results
