"""Symbolic interpreter for the subset of Python used by trash-cli.

The interpreter executes the *real* ASTs parsed from /repo on every run.
Statement execution is written as Python generators so that interpreted
generators (`yield`) are coroutines of the interpreter.
"""
import ast
import hashlib
import os

import z3

from . import spec
from .values import (BoundMethod, BreakSig, Builtin, ClassM, ClassV,
                     ContinueSig, ContractOutOfDate, EnumMember, FuncV, GenV,
                     IterV, LibModule, ModuleV, Obj, Opaque, OutsideSubset,
                     PathEnd, PropertyV, PyExc, RangeV, ReturnSig, StaticM,
                     StrSubObj, StreamV, SuperV, Sym, SymDict, SymSeq,
                     TupleObj, is_sym, mk, z3bool, z3int, z3str)

from .values import SetV
REPO = os.environ.get('PYVC_REPO', '/repo')
RANGE_BOUND = 3


class Env(object):
    __slots__ = ('vars', 'parent', 'module', 'func', 'cls_ctx')

    def __init__(self, parent, module, func=None):
        self.vars = {}
        self.parent = parent
        self.module = module
        self.func = func
        self.cls_ctx = None


class Interp(object):
    def __init__(self, repo=None):
        self.repo = repo or REPO
        self.modules = {}
        self.ctx = None
        self.contracts = {}       # (module, qualname) -> contract object
        self.active_contracts = set()
        self.loop_annots = {}     # (module, qualname, ordinal) -> annotation
        self.under_verification = None
        self.call_depth = 0
        self.sources = {}         # (module, qualname) -> sha256 of source seg
        from . import libmodels
        self.lib = libmodels.Library(self)
        self.builtins = self.lib.builtins
        self.exc = self.lib.exc_classes
        self.call_hooks = []
        self.loading_ctx = None
        self.persistent = {}      # id -> object: pre-existing heap (frame checks)
        self.loop_frames = []     # (pre-loop objects, writes) per open cut loop
        self.range_bound = RANGE_BOUND

    # ------------------------------------------------------------------
    # modules
    # ------------------------------------------------------------------
    def module_path(self, name):
        rel = name.replace('.', '/')
        for cand in (rel + '.py', rel + '/__init__.py'):
            p = os.path.join(self.repo, cand)
            if os.path.isfile(p):
                return p
        return None

    def load_module(self, name):
        if name in self.modules:
            return self.modules[name]
        path = self.module_path(name)
        if path is None:
            raise ContractOutOfDate('module %s not found in %s' %
                                    (name, self.repo))
        m = ModuleV(name, path)
        self.modules[name] = m
        with open(path) as f:
            src = f.read()
        m.source = src
        m.tree = ast.parse(src, path, type_comments=False)
        m.globals['__name__'] = name
        env = Env(None, m)
        env.vars = m.globals
        saved = self.ctx
        # module top level must be concrete: run with a throw-away ctx
        from .ctx import Ctx, Stats
        self.ctx = Ctx([], Stats(), 0)
        try:
            for _ in self.exec_block(m.tree.body, env):
                raise OutsideSubset('yield at module level')
        finally:
            self.ctx = saved
        m.loaded = True
        return m

    def is_repo_module(self, name):
        return name.split('.')[0] == 'trashcli' and \
            self.module_path(name) is not None

    def import_name(self, name):
        """value of `import name` / module object for a dotted name"""
        if self.is_repo_module(name):
            return self.load_module(name)
        return self.lib.module(name)

    def find_moved(self, modname, name):
        """the one repo module that now defines the top-level `name`, when it
        is no longer in modname (a function or class moved between modules
        keeps its contract); None when there is none or more than one"""
        import re
        pat = re.compile(r'^(?:def|class)\s+%s\b' % re.escape(name), re.M)
        hits = []
        root = os.path.join(self.repo, 'trashcli')
        for dp, dn, fn in os.walk(root):
            for f in fn:
                if f.endswith('.py'):
                    p = os.path.join(dp, f)
                    try:
                        with open(p) as fh:
                            if pat.search(fh.read()):
                                rel = os.path.relpath(p, self.repo)[:-3]
                                hits.append(rel.replace(os.sep, '.').replace(
                                    '.__init__', ''))
                    except (OSError, UnicodeDecodeError):
                        pass
        hits = [h for h in hits if h != modname]
        return hits[0] if len(hits) == 1 else None

    def lookup(self, modname, qualname):
        """resolve module + dotted qualname to a value (class attr chain)"""
        parts = qualname.split('.')
        moved_from = None
        try:
            m = self.load_module(modname)
            if parts[0] not in m.globals:
                raise ContractOutOfDate('gone')
        except ContractOutOfDate:
            new = self.find_moved(modname, parts[0])
            if new is None:
                raise ContractOutOfDate('%s.%s no longer exists' %
                                        (modname, qualname))
            moved_from = modname
            m = self.load_module(new)
            self.moved = getattr(self, 'moved', {})
            self.moved[(modname, parts[0])] = new
        if parts[0] not in m.globals:
            raise ContractOutOfDate('%s.%s no longer exists' %
                                    (modname, qualname))
        v = m.globals[parts[0]]
        for p in parts[1:]:
            if isinstance(v, ClassV):
                a, _ = v.lookup(p)
                if a is None:
                    raise ContractOutOfDate('%s.%s no longer exists' %
                                            (modname, qualname))
                v = a
            else:
                raise ContractOutOfDate('%s.%s: cannot resolve' %
                                        (modname, qualname))
        if isinstance(v, (StaticM, ClassM)):
            v = v.func
        if moved_from is not None and isinstance(v, FuncV):
            v.key_alias = (moved_from, qualname)
        return v

    def source_hash(self, fv):
        seg = ast.get_source_segment(fv.module.source, fv.node)
        return hashlib.sha256((seg or '').encode()).hexdigest()

    # ------------------------------------------------------------------
    # statements (generators)
    # ------------------------------------------------------------------
    def exec_block(self, stmts, env):
        for i, s in enumerate(stmts):
            if isinstance(s, (ast.While, ast.For)) and not hasattr(s, '_pyvc_prev'):
                s._pyvc_prev = stmts[:i]
            yield from self.exec_stmt(s, env)

    def exec_stmt(self, s, env):
        m = getattr(self, 'st_' + type(s).__name__, None)
        if m is None:
            raise OutsideSubset('statement %s at %s:%s' % (
                type(s).__name__, env.module.name, getattr(s, 'lineno', '?')))
        yield from m(s, env)

    def st_Expr(self, s, env):
        if isinstance(s.value, ast.Yield):
            v = self.eval(s.value.value, env) if s.value.value else None
            yield v
            return
        if isinstance(s.value, ast.Constant):
            return  # docstring
        self.eval(s.value, env)
        return
        yield

    def st_Pass(self, s, env):
        return
        yield

    def st_Import(self, s, env):
        for a in s.names:
            if a.asname:
                env.vars[a.asname] = self.import_name(a.name)
            else:
                top = a.name.split('.')[0]
                if self.is_repo_module(a.name):
                    self.load_module(a.name)
                    env.vars[top] = self.import_name(top) \
                        if self.is_repo_module(top) else self.lib.module(top)
                else:
                    env.vars[top] = self.lib.module(top)
        return
        yield

    def st_ImportFrom(self, s, env):
        if s.module == '__future__':
            return
        modname = s.module or ''
        if s.level:
            base = env.module.name.split('.')
            is_pkg = env.module.path.endswith('__init__.py')
            up = s.level - (1 if is_pkg else 0)
            base = base[:len(base) - up] if up else base
            if not is_pkg:
                base = env.module.name.split('.')[:-s.level]
            modname = '.'.join(base + ([s.module] if s.module else []))
        for a in s.names:
            target = a.asname or a.name
            if self.is_repo_module(modname):
                sub = modname + '.' + a.name
                if self.is_repo_module(sub) and \
                        a.name not in self._peek_globals(modname):
                    env.vars[target] = self.load_module(sub)
                    continue
                m = self.load_module(modname)
                if a.name not in m.globals:
                    raise PyExc(self.make_exc('ImportError', 'cannot import %s from %s' % (a.name, modname)))
                env.vars[target] = m.globals[a.name]
            else:
                env.vars[target] = self.lib.attr(modname, a.name)
        return
        yield

    def _peek_globals(self, modname):
        m = self.modules.get(modname)
        return m.globals if m else {}

    def st_Assign(self, s, env):
        v = self.eval(s.value, env)
        for t in s.targets:
            self.assign(t, v, env)
        return
        yield

    def st_AnnAssign(self, s, env):
        if s.value is not None:
            self.assign(s.target, self.eval(s.value, env), env)
        return
        yield

    def st_AugAssign(self, s, env):
        cur = self.eval(_load(s.target), env)
        v = self.binop(s.op, cur, self.eval(s.value, env))
        self.assign(s.target, v, env)
        return
        yield

    def st_Delete(self, s, env):
        for t in s.targets:
            if isinstance(t, ast.Name):
                env.vars.pop(t.id, None)
            else:
                raise OutsideSubset('del of non-name')
        return
        yield

    def st_Return(self, s, env):
        raise ReturnSig(self.eval(s.value, env) if s.value else None)
        yield

    def st_Break(self, s, env):
        raise BreakSig()
        yield

    def st_Continue(self, s, env):
        raise ContinueSig()
        yield

    def st_Raise(self, s, env):
        if s.exc is None:
            cur = getattr(env, '_cur_exc', None)
            e = self._current_exc(env)
            raise PyExc(e)
        v = self.eval(s.exc, env)
        if isinstance(v, ClassV):
            v = self.call(v, [], {})
        raise PyExc(v)
        yield

    def _current_exc(self, env):
        e = env
        while e is not None:
            if '__cur_exc__' in e.vars:
                return e.vars['__cur_exc__']
            e = e.parent
        raise OutsideSubset('bare raise outside except')

    def st_If(self, s, env):
        if self.truth(self.eval(s.test, env), _lbl(env, s)):
            yield from self.exec_block(s.body, env)
        else:
            yield from self.exec_block(s.orelse, env)

    def st_FunctionDef(self, s, env):
        fv = self.make_function(s, env)
        for d in reversed(s.decorator_list):
            fv = self.apply_decorator(self.eval(d, env), fv)
        env.vars[s.name] = fv
        return
        yield

    def make_function(self, s, env, cls=None):
        qual = s.name
        if env.cls_ctx is not None:
            qual = env.cls_ctx + '.' + s.name
        elif env.func is not None:
            qual = env.func.qualname + '.<locals>.' + s.name
        closure = env if env.func is not None else None
        fv = FuncV(s, env.module, closure, qual)
        fv.is_generator = _contains_yield(s)
        fv.defaults = [self.eval(d, env) for d in s.args.defaults]
        fv.kw_defaults = [self.eval(d, env) if d is not None else None
                          for d in s.args.kw_defaults]
        return fv

    def apply_decorator(self, dec, fv):
        if isinstance(dec, Builtin):
            return dec.fn(self, [fv], {})
        if isinstance(dec, Opaque):
            raise OutsideSubset('decorator %r' % dec)
        return self.call(dec, [fv], {})

    def st_ClassDef(self, s, env):
        bases = []
        for b in s.bases:
            bv = self.eval(b, env)
            bases.append(bv)
        qual = s.name if env.cls_ctx is None else env.cls_ctx + '.' + s.name
        cls = self.lib.build_class(s.name, env.module.name, bases, qual)
        cenv = Env(env, env.module, env.func)
        cenv.cls_ctx = qual
        for _ in self.exec_block(s.body, cenv):
            raise OutsideSubset('yield in class body')
        for k, v in cenv.vars.items():
            cls.attrs[k] = v
            if isinstance(v, FuncV):
                v.cls = cls
            elif isinstance(v, (StaticM, ClassM, PropertyV)) and \
                    isinstance(v.func, FuncV):
                v.func.cls = cls
        self.lib.finish_class(cls)
        for d in reversed(s.decorator_list):
            dv = self.eval(d, env)
            cls = self.apply_decorator(dv, cls)
        env.vars[s.name] = cls
        return
        yield

    def st_Try(self, s, env):
        try:
            try:
                yield from self.exec_block(s.body, env)
            except PyExc as pe:
                handled = False
                for h in s.handlers:
                    if self.exc_matches(pe.value, h, env):
                        handled = True
                        if h.name:
                            env.vars[h.name] = pe.value
                        saved = env.vars.get('__cur_exc__', _MISSING)
                        env.vars['__cur_exc__'] = pe.value
                        try:
                            yield from self.exec_block(h.body, env)
                        finally:
                            if saved is _MISSING:
                                env.vars.pop('__cur_exc__', None)
                            else:
                                env.vars['__cur_exc__'] = saved
                        break
                if not handled:
                    raise
            else:
                yield from self.exec_block(s.orelse, env)
        finally:
            if s.finalbody:
                # NB: runs also on Return/Break signals, like Python
                for _ in self.exec_block(s.finalbody, env):
                    raise OutsideSubset('yield in finally')

    def exc_matches(self, excv, handler, env):
        if handler.type is None:
            return True
        t = self.eval(handler.type, env)
        classes = t if isinstance(t, tuple) else (t,)
        for c in classes:
            if not isinstance(c, ClassV):
                raise OutsideSubset('except %r' % (c,))
            if excv.cls.issubclass(c):
                return True
        return False

    def st_With(self, s, env):
        if len(s.items) != 1:
            raise OutsideSubset('with multiple items')
        it = s.items[0]
        cm = self.eval(it.context_expr, env)
        enter = self.getattr(cm, '__enter__')
        v = self.call(enter, [], {})
        if it.optional_vars is not None:
            self.assign(it.optional_vars, v, env)
        try:
            yield from self.exec_block(s.body, env)
        finally:
            self.call(self.getattr(cm, '__exit__'), [None, None, None], {})

    # ---- loops -----------------------------------------------------------
    def loop_key(self, s, env):
        f = env.func
        if f is None:
            return None
        loops = [n for n in ast.walk(f.node)
                 if isinstance(n, (ast.For, ast.While))]
        loops.sort(key=lambda n: (n.lineno, n.col_offset))
        return f.key + (loops.index(s),)

    def st_While(self, s, env):
        key = self.loop_key(s, env)
        annot = self.loop_annots.get(key)
        if annot is not None:
            yield from self.cut_while(s, env, annot, key)
            return
        n = 0
        while True:
            if not self.truth(self.eval(s.test, env), _lbl(env, s)):
                yield from self.exec_block(s.orelse, env)
                return
            n += 1
            if n > 400:
                raise OutsideSubset(
                    'while loop at %s:%d needs an invariant' %
                    (env.module.name, s.lineno))
            try:
                yield from self.exec_block(s.body, env)
            except BreakSig:
                return
            except ContinueSig:
                continue

    # ------------------------------------------------------------------
    # automatic loop invariants for temporaries that cache an expression
    # ------------------------------------------------------------------
    _PURE_CALLS = ('os.path.', 'posixpath.')

    def _pure_expr(self, e):
        for n in ast.walk(e):
            if isinstance(n, ast.Call):
                f = n.func
                parts = []
                while isinstance(f, ast.Attribute):
                    parts.append(f.attr)
                    f = f.value
                if not isinstance(f, ast.Name):
                    return False
                dotted = '.'.join([f.id] + parts[::-1])
                if not (dotted.startswith(self._PURE_CALLS) or dotted in ('len', 'str')):
                    return False
                if n.keywords:
                    return False
            elif not isinstance(n, (ast.Name, ast.Attribute, ast.Constant, ast.BinOp,
                                    ast.Add, ast.Sub, ast.Load, ast.Subscript,
                                    ast.Slice, ast.UnaryOp, ast.USub)):
                return False
        return True

    @staticmethod
    def _assigned_names(stmts):
        out = set()
        for st in stmts:
            for n in ast.walk(st):
                if isinstance(n, ast.Name) and isinstance(n.ctx, ast.Store):
                    out.add(n.id)
        return out

    def auto_equalities(self, s):
        """[(x, E)] such that `x = E` (E pure) is the last assignment to x
        both before the loop and in its body, with no variable of E assigned
        afterwards in either place: `x == E` is then a candidate invariant.
        It is CHECKED like a written one (init and preservation obligations),
        so nothing is assumed; it only spares the written invariants from
        mentioning incidental temporaries (e.g. `parent = dirname(path)`)."""
        cached = getattr(s, '_pyvc_auto', None)
        if cached is not None:
            return cached
        out = []
        prev = getattr(s, '_pyvc_prev', None) or []
        body = s.body
        for i, st in enumerate(body):
            if not (isinstance(st, ast.Assign) and len(st.targets) == 1 and
                    isinstance(st.targets[0], ast.Name) and self._pure_expr(st.value)):
                continue
            x = st.targets[0].id
            evars = set(n.id for n in ast.walk(st.value) if isinstance(n, ast.Name))
            if x in evars:
                continue
            later = self._assigned_names(body[i + 1:])
            if x in later or evars & later:
                continue
            dump = ast.dump(st.value)
            for j in range(len(prev) - 1, -1, -1):
                pj = prev[j]
                if isinstance(pj, ast.Assign) and len(pj.targets) == 1 and \
                        isinstance(pj.targets[0], ast.Name) and \
                        pj.targets[0].id == x and ast.dump(pj.value) == dump:
                    after = self._assigned_names(prev[j + 1:])
                    if x not in after and not (evars & after):
                        out.append((x, st.value))
                    break
                if x in self._assigned_names([pj]):
                    break
        s._pyvc_auto = out
        return out

    def _auto_inv(self, s, env, name, phase):
        """phase 'init'/'pres': obligations; 'assume': facts at the loop head"""
        ctx = self.ctx
        for x, E in self.auto_equalities(s):
            if x not in env.vars:
                continue
            try:
                v = self.eval(E, env)
                eq = self.equals(env.vars[x], v)
            except (PyExc, OutsideSubset):
                continue
            f = eq.t if is_sym(eq) else z3.BoolVal(bool(eq))
            if phase == 'assume':
                ctx.assume(f)
            else:
                ctx.oblige('%s/auto-inv-%s/%s-caches-its-expression' % (name, phase, x),
                           f, kind='inv-' + phase)

    def cut_while(self, s, env, annot, key):
        ctx = self.ctx
        name = '%s.%s/loop%d' % key
        annot.used = True
        for n, f in annot.invariant(self, env):
            ctx.oblige('%s/inv-init/%s' % (name, n), f, kind='inv-init')
        self._auto_inv(s, env, name, 'init')
        self.freeze_for_loop(env)
        self.havoc_locals(s, env, annot)
        if annot.havoc_ghost:
            annot.havoc_ghost(self, env)
        self._auto_inv(s, env, name, 'assume')
        for n, f in annot.invariant(self, env):
            ctx.assume(f)
        v0 = annot.variant(self, env) if annot.variant else None
        if not self.truth(self.eval(s.test, env), _lbl(env, s)):
            self.loop_frames.pop()
            yield from self.exec_block(s.orelse, env)
            return
        depth = len(self.loop_frames)
        try:
            yield from self.exec_block(s.body, env)
        except BreakSig:
            self.end_loop_frame(annot, name)
            return
        except ContinueSig:
            pass
        except BaseException:
            del self.loop_frames[depth - 1:]
            raise
        self.end_loop_frame(annot, name)
        self._auto_inv(s, env, name, 'pres')
        for n, f in annot.invariant(self, env):
            ctx.oblige('%s/inv-pres/%s' % (name, n), f, kind='inv-pres')
        if v0 is not None:
            v1 = annot.variant(self, env)
            ctx.oblige('%s/variant' % name,
                       z3.And(v0 >= 0, v1 < v0), kind='variant')
        raise PathEnd()

    def havoc_locals(self, s, env, annot, skip=()):
        names = set()
        for n in ast.walk(s):
            if isinstance(n, ast.Name) and isinstance(n.ctx, ast.Store):
                names.add(n.id)
            elif isinstance(n, ast.ExceptHandler) and n.name:
                names.add(n.name)
        names |= set((annot.types or {}).keys())
        for nm in sorted(names):
            if nm not in env.vars or nm in skip:
                continue
            cur = env.vars[nm]
            ty = (annot.types or {}).get(nm)
            if ty is None:
                if isinstance(cur, bool) or (is_sym(cur) and cur.ty == 'bool'):
                    ty = 'bool'
                elif isinstance(cur, int) or (is_sym(cur) and cur.ty == 'int'):
                    ty = 'int'
                elif isinstance(cur, str) or (is_sym(cur) and cur.ty == 'str'):
                    ty = 'str'
                else:
                    if annot.keep and nm in annot.keep:
                        continue
                    raise OutsideSubset(
                        'cannot havoc local %s of %r' % (nm, cur))
            env.vars[nm] = self.fresh(ty, nm)

    def fresh(self, ty, hint='v'):
        c = self.ctx
        if ty == 'seq':
            # an arbitrary list of strings: symbolic length, uninterpreted
            # element function
            n = c.fresh_int(hint + '.len')
            c.assume(n >= 0)
            f = z3.Function(c.fresh_name(hint + '.at'),
                            z3.IntSort(), z3.StringSort())
            return SymSeq(n, lambda i, f=f: f(i if z3.is_expr(i) else z3.IntVal(i)),
                          ('havoc', hint, str(n)))
        if ty == 'int':
            return Sym(c.fresh_int(hint), 'int')
        if ty == 'bool':
            return Sym(c.fresh_bool(hint), 'bool')
        if ty == 'str':
            return Sym(c.fresh_str(hint), 'str')
        raise OutsideSubset('fresh %s' % ty)

    def st_For(self, s, env):
        it = self.eval(s.iter, env)
        key = self.loop_key(s, env)
        annot = self.loop_annots.get(key)
        if isinstance(it, SymSeq) or (annot is not None and annot.abstract):
            if annot is None:
                raise OutsideSubset(
                    'for loop over symbolic sequence at %s:%d needs an '
                    'invariant' % (env.module.name, s.lineno))
            yield from self.cut_for(s, env, it, annot, key)
            return
        if annot is not None and (annot.variant is not None or
                                  isinstance(it, RangeV)):
            # an invariant written for another form of this loop (e.g. a
            # `while` with a counter that became `for i in range(n)`)
            raise ContractOutOfDate(
                'the loop annotation of %s.%s/loop%d was written for a '
                'different form of the loop' % key)
        n = 0
        for x in self.iterate(it):
            n += 1
            if n > 2000:
                raise OutsideSubset('for loop too long at %s:%d' %
                                    (env.module.name, s.lineno))
            self.assign(s.target, x, env)
            try:
                yield from self.exec_block(s.body, env)
            except BreakSig:
                return
            except ContinueSig:
                continue
        yield from self.exec_block(s.orelse, env)

    def cut_for(self, s, env, seq, annot, key):
        """for x in <SymSeq or abstract iterable>: cut at an inductive
        invariant.  For a SymSeq the invariant ranges over the index; for an
        abstract iterable (annot.abstract) the element is arbitrary."""
        ctx = self.ctx
        name = '%s.%s/loop%d' % key
        annot.used = True
        indexed = isinstance(seq, SymSeq)
        for nm, f in annot.invariant(self, env, seq, z3.IntVal(0)):
            ctx.oblige('%s/inv-init/%s' % (name, nm), f, kind='inv-init')
        self.freeze_for_loop(env)
        self.havoc_locals(_Body(s.body + [ast.Expr(value=s.target)]), env,
                          annot, skip=_target_names(s.target))
        if annot.havoc_ghost:
            annot.havoc_ghost(self, env)
        i = ctx.fresh_int('idx')
        if indexed:
            n = seq.length
            ctx.assume(z3.And(i >= 0, i <= n))
        else:
            ctx.assume(i >= 0)
        for nm, f in annot.invariant(self, env, seq, i):
            ctx.assume(f)
        if indexed:
            more = ctx.branch(i < n, 'loop%d-more' % key[2])
        else:
            more = ctx.choose(2, 'loop%d-more' % key[2]) == 0
        if more:
            if indexed:
                x = mk(seq.at(i))
            else:
                x = annot.element(self, env, seq, i)
            if annot.on_element:
                x2 = annot.on_element(self, env, seq, i, x)
                if x2 is not None:
                    x = x2
            self.assign(s.target, x, env)
            depth = len(self.loop_frames)
            try:
                yield from self.exec_block(s.body, env)
            except BreakSig:
                self.end_loop_frame(annot, name)
                return
            except ContinueSig:
                pass
            except BaseException:
                del self.loop_frames[depth - 1:]
                raise
            self.end_loop_frame(annot, name)
            if annot.at_iteration_end:
                annot.at_iteration_end(self, env, seq, i, x)
            for nm, f in annot.invariant(self, env, seq, i + 1):
                ctx.oblige('%s/inv-pres/%s' % (name, nm), f, kind='inv-pres')
            raise PathEnd()
        else:
            self.loop_frames.pop()
            if indexed:
                ctx.assume(i == n)
            yield from self.exec_block(s.orelse, env)

    def iterate(self, it):
        """python iterator over interpreter values"""
        if isinstance(it, SetV):
            return list(it.items)
        if isinstance(it, (list, tuple)):
            return iter(list(it))
        if isinstance(it, GenV):
            return self._gen_iter(it)
        if isinstance(it, IterV):
            return it.it
        if isinstance(it, TupleObj):
            return iter(it.items)
        if isinstance(it, dict):
            return iter(list(it.keys()))
        if isinstance(it, RangeV):
            if is_sym(it.start) or is_sym(it.stop):
                # BOUNDED: symbolic ranges are unrolled up to RANGE_BOUND
                # elements; longer ones end the path and are counted in
                # stats.bounded_cuts (reported in the evidence, never proof)
                ctx = self.ctx
                a, b = z3int(it.start), z3int(it.stop)
                conds = [b - a <= 0] + [b - a == k for k in
                                        range(1, self.range_bound + 1)] + \
                    [b - a > self.range_bound]
                d = ctx.fork(conds, 'range-len')
                if d == len(conds) - 1:
                    ctx.stats.bounded_cuts = getattr(
                        ctx.stats, 'bounded_cuts', 0) + 1
                    raise PathEnd()
                return iter([mk(a + k) for k in range(d)])
            return iter(range(it.start, it.stop))
        if isinstance(it, str):
            return iter(it)
        if isinstance(it, Obj):
            m = self.getattr(it, '__iter__', None)
            if m is not None:
                return self.iterate(self.call(m, [], {}))
        raise OutsideSubset('iteration over %r' % (it,))

    def _gen_iter(self, g):
        while True:
            try:
                v = next(g.pygen)
            except StopIteration:
                g.done = True
                return
            yield v

    # ------------------------------------------------------------------
    # assignment
    # ------------------------------------------------------------------
    def assign(self, t, v, env):
        if isinstance(t, ast.Name):
            env.vars[t.id] = v
        elif isinstance(t, ast.Attribute):
            o = self.eval(t.value, env)
            self.setattr(o, t.attr, v)
        elif isinstance(t, (ast.Tuple, ast.List)):
            items = list(self.iterate(v))
            if len(items) != len(t.elts):
                raise PyExc(self.make_exc('ValueError', 'unpack mismatch'))
            for tt, vv in zip(t.elts, items):
                self.assign(tt, vv, env)
        elif isinstance(t, ast.Subscript):
            o = self.eval(t.value, env)
            k = self.eval(t.slice, env)
            if isinstance(o, dict):
                self.lib.dict_store(self, o, k, v)
            elif isinstance(o, list) and not is_sym(k):
                self.heap_write(o, 'item')
                o[k] = v
            else:
                raise OutsideSubset('subscript store on %r' % (o,))
        else:
            raise OutsideSubset('assign target %s' % type(t).__name__)

    def mark_persistent(self, root):
        """everything reachable from root now is pre-existing heap: writes to
        it during a call are recorded as ('heap-write', ...) events"""
        todo = [root]
        while todo:
            x = todo.pop()
            if isinstance(x, (Obj, list, dict)):
                if id(x) in self.persistent:
                    continue
                self.persistent[id(x)] = x
            if isinstance(x, Obj):
                todo.extend(x.attrs.values())
                if isinstance(x, TupleObj):
                    todo.extend(x.items)
            elif isinstance(x, (list, tuple)):
                todo.extend(x)
            elif isinstance(x, dict):
                todo.extend(x.values())
            elif isinstance(x, BoundMethod):
                todo.append(x.self_obj)

    def freeze_for_loop(self, env):
        """objects that exist before a cut loop: a write to one of them inside
        the body is not covered by havocking the locals, so the cut would be
        unsound; such writes are recorded and reported by end_loop_frame"""
        seen = {}
        todo = list(env.vars.values())
        while todo:
            x = todo.pop()
            if isinstance(x, (Obj, list, dict, SetV, SymSeq)):
                if id(x) in seen:
                    continue
                seen[id(x)] = x
            if isinstance(x, Obj):
                todo.extend(x.attrs.values())
                if isinstance(x, TupleObj):
                    todo.extend(x.items)
            elif isinstance(x, (list, tuple)):
                todo.extend(x)
            elif isinstance(x, dict):
                todo.extend(x.values())
            elif isinstance(x, SetV):
                todo.extend(x.items)
            elif isinstance(x, BoundMethod):
                todo.append(x.self_obj)
        self.loop_frames.append((seen, []))

    def end_loop_frame(self, annot, where):
        seen, writes = self.loop_frames.pop()
        writes = [w for w in writes if w not in (getattr(annot, 'mutates', None) or ())]
        if writes:
            # the cut is not a sound abstraction of this loop: the VC stays
            # undecided (exit 2) unless one of its obligations is refuted on
            # the paths that were explored
            msg = ('the body of the cut loop %s writes to an object that exists '
                   'before the loop (%s): the annotation must abstract it' % (
                       where, ', '.join(sorted(set(writes)))[:200]))
            soft = self.ctx.stats.__dict__.setdefault('soft_errors', [])
            if msg not in soft:
                soft.append(msg)

    def heap_write(self, o, what):
        for seen, writes in self.loop_frames:
            if id(o) in seen:
                writes.append('%s of a %s' % (what, getattr(getattr(
                    o, 'cls', None), 'name', type(o).__name__)))
        if id(o) in self.persistent and self.ctx is not None:
            self.ctx.events.append(('heap-write', what,
                                    getattr(getattr(o, 'cls', None), 'name',
                                            type(o).__name__)))

    def setattr(self, o, name, v):
        if isinstance(o, Obj):
            if self.ctx is not None:
                self.ctx.events.append(('setattr', o, name))
            self.heap_write(o, 'attribute %s' % name)
            o.attrs[name] = v
        elif isinstance(o, ClassV):
            o.attrs[name] = v
        elif type(o).__name__ == 'ActionV':
            o.attrs[name] = v          # e.g. action.complete = TRASH_DIRS
        elif isinstance(o, (Opaque, LibModule, FuncV)):
            # e.g. action.complete = ..., Action.complete = None: ignored
            if isinstance(o, FuncV):
                raise OutsideSubset('setattr on function')
            return
        else:
            raise OutsideSubset('setattr on %r' % (o,))

    # ------------------------------------------------------------------
    # expressions
    # ------------------------------------------------------------------
    def eval(self, e, env):
        m = getattr(self, 'ex_' + type(e).__name__, None)
        if m is None:
            raise OutsideSubset('expression %s at %s:%s' % (
                type(e).__name__, env.module.name, getattr(e, 'lineno', '?')))
        return m(e, env)

    def ex_Constant(self, e, env):
        if isinstance(e.value, bytes):
            return Sym(z3.StringVal(e.value.decode('latin-1')), 'bytes')
        return e.value

    def ex_Name(self, e, env):
        name = e.id
        cur = env
        while cur is not None:
            if name in cur.vars:
                return cur.vars[name]
            # class bodies are not enclosing scopes for functions
            cur = cur.parent
            while cur is not None and cur.cls_ctx is not None and \
                    cur is not env:
                cur = cur.parent
        g = env.module.globals
        if name in g:
            return g[name]
        if name in self.builtins:
            return self.builtins[name]
        raise PyExc(self.make_exc('NameError', name))

    def ex_Attribute(self, e, env):
        o = self.eval(e.value, env)
        return self.getattr(o, e.attr)

    def ex_Tuple(self, e, env):
        return tuple(self.eval(x, env) for x in e.elts)

    def ex_List(self, e, env):
        return [self.eval(x, env) for x in e.elts]

    def ex_Set(self, e, env):
        return frozenset(self.eval(x, env) for x in e.elts)

    def ex_Dict(self, e, env):
        d = {}
        for k, v in zip(e.keys, e.values):
            kv = self.eval(k, env)
            if is_sym(kv):
                raise OutsideSubset('symbolic dict key')
            d[kv] = self.eval(v, env)
        return d

    def ex_Lambda(self, e, env):
        node = ast.FunctionDef(
            name='<lambda>', args=e.args,
            body=[ast.Return(value=e.body)], decorator_list=[],
            returns=None, type_comment=None)
        ast.copy_location(node, e)
        ast.fix_missing_locations(node)
        qual = (env.func.qualname + '.<locals>.<lambda>') if env.func \
            else '<lambda>'
        fv = FuncV(node, env.module, env if env.func is not None else None,
                   qual)
        fv.is_generator = False
        fv.defaults = [self.eval(d, env) for d in e.args.defaults]
        fv.kw_defaults = []
        return fv

    def ex_IfExp(self, e, env):
        if self.truth(self.eval(e.test, env), _lbl(env, e)):
            return self.eval(e.body, env)
        return self.eval(e.orelse, env)

    def ex_BoolOp(self, e, env):
        if isinstance(e.op, ast.And):
            v = True
            for x in e.values:
                v = self.eval(x, env)
                if not self.truth(v, _lbl(env, e)):
                    return v
            return v
        else:
            v = False
            for x in e.values:
                v = self.eval(x, env)
                if self.truth(v, _lbl(env, e)):
                    return v
            return v

    def ex_UnaryOp(self, e, env):
        v = self.eval(e.operand, env)
        if isinstance(e.op, ast.Not):
            if is_sym(v) and v.ty == 'bool':
                return mk(z3.Not(v.t))
            return not self.truth(v, _lbl(env, e))
        if isinstance(e.op, ast.USub):
            if is_sym(v):
                return mk(-z3int(v))
            return -v
        raise OutsideSubset('unary op')

    def ex_BinOp(self, e, env):
        return self.binop(e.op, self.eval(e.left, env),
                          self.eval(e.right, env))

    def ex_Compare(self, e, env):
        left = self.eval(e.left, env)
        result = True
        for op, r in zip(e.ops, e.comparators):
            right = self.eval(r, env)
            c = self.compare(op, left, right)
            if len(e.ops) == 1:
                return c
            if not self.truth(c, _lbl(env, e)):
                return False
            left = right
        return result

    def ex_Call(self, e, env):
        f = self.eval(e.func, env)
        args = []
        for a in e.args:
            if isinstance(a, ast.Starred):
                args.extend(self.iterate(self.eval(a.value, env)))
            else:
                args.append(self.eval(a, env))
        kwargs = {}
        for k in e.keywords:
            if k.arg is None:
                raise OutsideSubset('**kwargs call')
            kwargs[k.arg] = self.eval(k.value, env)
        # zero-argument super()
        if f is self.builtins.get('super') and not args:
            raise OutsideSubset('zero-arg super')
        return self.call(f, args, kwargs, site=(env, e))

    def ex_Subscript(self, e, env):
        o = self.eval(e.value, env)
        if isinstance(e.slice, ast.Slice):
            lo = self.eval(e.slice.lower, env) if e.slice.lower else None
            hi = self.eval(e.slice.upper, env) if e.slice.upper else None
            if e.slice.step is not None:
                raise OutsideSubset('slice step')
            return self.lib.slice(o, lo, hi)
        k = self.eval(e.slice, env)
        return self.lib.index(o, k)

    def ex_ListComp(self, e, env):
        if len(e.generators) != 1:
            raise OutsideSubset('nested comprehension')
        g = e.generators[0]
        out = []
        it = self.eval(g.iter, env)
        if isinstance(it, SymSeq):
            raise OutsideSubset('comprehension over symbolic sequence')
        sub = Env(env, env.module, env.func)
        for x in self.iterate(it):
            self.assign(g.target, x, sub)
            if all(self.truth(self.eval(c, sub), _lbl(env, e)) for c in g.ifs):
                out.append(self.eval(e.elt, sub))
        return out

    def ex_GeneratorExp(self, e, env):
        """LAZY, as in CPython: elements (and their side effects) are produced
        only as far as the consumer asks (any/all/next stop early)"""
        if len(e.generators) != 1:
            raise OutsideSubset('nested comprehension')
        g = e.generators[0]
        it = self.eval(g.iter, env)      # the outermost iterable is evaluated at once
        if isinstance(it, SymSeq):
            raise OutsideSubset('comprehension over symbolic sequence')

        def gen():
            sub = Env(env, env.module, env.func)
            for x in self.iterate(it):
                self.assign(g.target, x, sub)
                if all(self.truth(self.eval(c, sub), _lbl(env, e)) for c in g.ifs):
                    yield self.eval(e.elt, sub)
        return IterV(gen())

    def ex_SetComp(self, e, env):
        out = SetV()
        for x in self.ex_ListComp(e, env):
            self.lib._set_add(self, out, x)
        return out

    def ex_DictComp(self, e, env):
        if len(e.generators) != 1:
            raise OutsideSubset('nested comprehension')
        g = e.generators[0]
        out = {}
        it = self.eval(g.iter, env)
        if isinstance(it, SymSeq):
            raise OutsideSubset('comprehension over symbolic sequence')
        sub = Env(env, env.module, env.func)
        for x in self.iterate(it):
            self.assign(g.target, x, sub)
            if all(self.truth(self.eval(c, sub), _lbl(env, e)) for c in g.ifs):
                self.lib.dict_store(self, out, self.eval(e.key, sub),
                                    self.eval(e.value, sub))
        return out

    def st_Assert(self, s, env):
        if not self.truth(self.eval(s.test, env), _lbl(env, s)):
            raise PyExc(self.make_exc('AssertionError', ''))
        return
        yield

    def ex_JoinedStr(self, e, env):
        raise OutsideSubset('f-string')

    # ------------------------------------------------------------------
    # truth, comparison, arithmetic
    # ------------------------------------------------------------------
    def truth(self, v, label=''):
        if v is None or v is False:
            return False
        if v is True:
            return True
        if is_sym(v):
            if v.ty == 'bool':
                return self.ctx.branch(v.t, label)
            if v.ty == 'int':
                return self.ctx.branch(v.t != 0, label)
            if v.ty in ('str', 'bytes'):
                return self.ctx.branch(z3.Length(v.t) > 0, label)
        if isinstance(v, (int, str, list, tuple, dict, frozenset)):
            return bool(v)
        if isinstance(v, SymSeq):
            return self.ctx.branch(v.length > 0, label)
        if isinstance(v, TupleObj):
            return len(v.items) > 0
        if isinstance(v, StrSubObj):
            return bool(v.payload)
        if isinstance(v, Obj):
            m = self.getattr(v, '__bool__', None) or \
                self.getattr(v, '__len__', None)
            if m is not None:
                return self.truth(self.call(m, [], {}), label)
            return True
        if isinstance(v, (GenV, ClassV, FuncV, BoundMethod, Builtin,
                          ModuleV, LibModule, StreamV, IterV, SymDict)):
            return True
        if getattr(v, 'always_truthy', False):
            return True
        raise OutsideSubset('truth of %r' % (v,))

    def compare(self, op, a, b):
        if isinstance(op, ast.Eq):
            return self.equals(a, b)
        if isinstance(op, ast.NotEq):
            r = self.equals(a, b)
            return mk(z3.Not(r.t)) if is_sym(r) else (not r)
        if isinstance(op, ast.Is):
            return self.identical(a, b)
        if isinstance(op, ast.IsNot):
            return not self.identical(a, b)
        if isinstance(op, ast.In):
            return self.lib.contains(b, a)
        if isinstance(op, ast.NotIn):
            r = self.lib.contains(b, a)
            return mk(z3.Not(r.t)) if is_sym(r) else (not r)
        return self.lib.order(op, a, b)

    def identical(self, a, b):
        if is_sym(a) or is_sym(b):
            if a is None or b is None:
                return False
            raise OutsideSubset('identity of symbolic values')
        if isinstance(a, (bool, type(None))) or isinstance(b, (bool, type(None))):
            return a is b
        return a is b

    def equals(self, a, b):
        return self.lib.equals(a, b)

    def binop(self, op, a, b):
        return self.lib.binop(op, a, b)

    # ------------------------------------------------------------------
    # attributes
    # ------------------------------------------------------------------
    _NOATTR = object()

    def getattr(self, o, name, default=_NOATTR):
        r = self._getattr(o, name)
        if r is _MISSING:
            if default is not Interp._NOATTR:
                return default
            if isinstance(o, (list, dict, frozenset, str, int, tuple, SetV)) \
                    or is_sym(o):
                # CPython's object has many more attributes than the model
                raise OutsideSubset('%s.%s is not modelled' % (
                    type(o).__name__, name))
            raise PyExc(self.make_exc(
                'AttributeError', '%r has no attribute %s' % (o, name)))
        return r

    def _getattr(self, o, name):
        if isinstance(o, Obj):
            if name in o.attrs:
                return o.attrs[name]
            if isinstance(o, TupleObj) and o.cls.nt_fields and \
                    name in o.cls.nt_fields:
                return o.items[o.cls.nt_fields.index(name)]
            a, owner = o.cls.lookup(name)
            if a is not None or owner is not None:
                return self.bind(a, o, o.cls)
            r = self.lib.obj_attr(o, name)
            return r
        if isinstance(o, ClassV):
            a, owner = o.lookup(name)
            if owner is not None:
                if isinstance(a, StaticM):
                    return a.func
                if isinstance(a, ClassM):
                    return BoundMethod(a.func, o)
                return a
            if name == '__name__':
                return o.name
            return self.lib.class_attr(o, name)
        if isinstance(o, ModuleV):
            if name in o.globals:
                return o.globals[name]
            sub = o.name + '.' + name
            if self.is_repo_module(sub):
                return self.load_module(sub)
            return _MISSING
        if isinstance(o, LibModule):
            return self.lib.attr(o.name, name)
        if isinstance(o, SuperV):
            a, owner = o.obj.cls.lookup(name, after=o.cls) \
                if isinstance(o.obj, Obj) else (None, None)
            if owner is None:
                return self.lib.super_attr(o, name)
            return self.bind(a, o.obj, o.obj.cls)
        return self.lib.value_attr(o, name)

    def bind(self, a, obj, cls):
        if isinstance(a, FuncV):
            return BoundMethod(a, obj)
        if isinstance(a, StaticM):
            return a.func
        if isinstance(a, ClassM):
            return BoundMethod(a.func, cls)
        if isinstance(a, PropertyV):
            return self.call(a.func, [obj], {})
        if isinstance(a, Builtin) and getattr(a, 'is_method', False):
            return BoundMethod(a, obj)
        return a

    # ------------------------------------------------------------------
    # calls
    # ------------------------------------------------------------------
    def call(self, f, args, kwargs, site=None):
        if isinstance(f, BoundMethod):
            return self.call(f.func, [f.self_obj] + list(args), kwargs, site)
        if isinstance(f, FuncV):
            return self.call_function(f, args, kwargs, site)
        if isinstance(f, Builtin):
            return f.fn(self, list(args), kwargs)
        if isinstance(f, ClassV):
            return self.lib.instantiate(f, list(args), kwargs)
        if isinstance(f, Opaque):
            raise OutsideSubset('call of unmodelled %s' % f.name)
        if isinstance(f, Obj):
            m = self.getattr(f, '__call__', None)
            if m is not None:
                return self.call(m, args, kwargs, site)
        raise OutsideSubset('call of %r' % (f,))

    def bind_args(self, fv, args, kwargs):
        a = fv.node.args
        params = [x.arg for x in a.posonlyargs + a.args]
        extra_pos, extra_kw = (), {}
        if a.vararg or a.kwarg:
            if a.vararg and len(args) > len(params):
                extra_pos = tuple(args[len(params):])
                args = list(args)[:len(params)]
            if a.kwarg:
                names = set(params) | set(x.arg for x in a.kwonlyargs)
                extra_kw = dict((k, v) for k, v in kwargs.items() if k not in names)
                kwargs = dict((k, v) for k, v in kwargs.items() if k in names)
        if len(args) > len(params):
            raise PyExc(self.make_exc(
                'TypeError', '%s takes %d positional arguments but %d were '
                             'given' % (fv.qualname, len(params), len(args))))
        vals = dict(zip(params, args))
        for k, v in kwargs.items():
            if k in vals:
                raise PyExc(self.make_exc('TypeError', 'multiple values for ' + k))
            if k not in params and k not in [x.arg for x in a.kwonlyargs]:
                raise PyExc(self.make_exc('TypeError', 'unexpected keyword ' + k))
            vals[k] = v
        nd = len(fv.defaults)
        for i, p in enumerate(params):
            if p not in vals:
                j = i - (len(params) - nd)
                if j < 0:
                    raise PyExc(self.make_exc(
                        'TypeError', '%s missing argument %s' %
                        (fv.qualname, p)))
                vals[p] = fv.defaults[j]
        for x, d in zip(a.kwonlyargs, fv.kw_defaults):
            if x.arg not in vals:
                vals[x.arg] = d
        if a.vararg:
            vals[a.vararg.arg] = extra_pos
        if a.kwarg:
            vals[a.kwarg.arg] = extra_kw
        return vals

    def call_function(self, fv, args, kwargs, site=None):
        vals = self.bind_args(fv, args, kwargs)
        c = self.contracts.get(fv.key)
        if c is not None and fv.key in self.active_contracts and \
                self.under_verification != (fv.key, self.call_depth == 0):
            return c.apply_at_call(self, vals, site)
        for h in self.call_hooks:
            h(self, fv, vals)
        ex = getattr(self, 'executed', None)
        if ex is not None:
            k = '%s.%s' % (fv.module.name, fv.qualname)
            if k not in ex:
                ex[k] = self.source_hash(fv)
        env = Env(fv.closure, fv.module, fv)
        env.vars.update(vals)
        if fv.is_generator:
            return GenV(self._run_gen(fv, env), fv)
        self.call_depth += 1
        if self.call_depth > 200:
            raise OutsideSubset('recursion too deep')
        try:
            for _ in self.exec_block(fv.node.body, env):
                raise OutsideSubset('yield in non-generator')
        except ReturnSig as r:
            return r.value
        finally:
            self.call_depth -= 1
        return None

    def _run_gen(self, fv, env):
        try:
            yield from self.exec_block(fv.node.body, env)
        except ReturnSig:
            return

    # ------------------------------------------------------------------
    def make_exc(self, clsname, msg='', **attrs):
        return self.lib.make_exc(clsname, msg, **attrs)


class _Body(ast.AST):
    """helper so ast.walk visits a list of statements"""
    _fields = ('body',)

    def __init__(self, body):
        self.body = body


_MISSING = object()


def _target_names(t):
    return set(n.id for n in ast.walk(t) if isinstance(n, ast.Name))


def _load(t):
    import copy
    t2 = copy.copy(t)
    t2.ctx = ast.Load()
    return t2


def _lbl(env, node):
    return '%s:%d' % (env.module.name.split('.')[-1],
                      getattr(node, 'lineno', 0))


def _contains_yield(fn):
    for n in _walk_no_nested(fn):
        if isinstance(n, (ast.Yield, ast.YieldFrom)):
            return True
    return False


def _walk_no_nested(fn):
    todo = list(ast.iter_child_nodes(fn))
    while todo:
        n = todo.pop()
        yield n
        if isinstance(n, (ast.FunctionDef, ast.Lambda, ast.ClassDef)):
            continue
        todo.extend(ast.iter_child_nodes(n))
