"""Ghost file-system model (DESIGN.md section 2.4).

The trust boundary is os.* / shutil.* / open().  Reads are uninterpreted
observations of a state token sigma and a path string; every mutating
primitive forks into success and OSError(symbolic errno), appends an event to
the path's trace, and moves to a fresh state token.  Nothing is carried over
from sigma to sigma' except through the explicit frame facts below -- fewer
facts means more behaviours are considered, never fewer.
"""
import z3

from .values import tid

from . import spec
from .values import (Builtin, Obj, OutsideSubset, PyExc, Sym, SymSeq, is_sym,
                     mk, z3int, z3str, StreamV, SymDict)

State = spec.State
S = z3.StringSort()
I = z3.IntSort()
B = z3.BoolSort()

ABSENT, FILE, DIR, SYMLINK = 0, 1, 2, 3

lkind_f = z3.Function('lkind', State, S, I)
kind_f = z3.Function('kind', State, S, I)
sticky_f = z3.Function('sticky', State, S, B)
ismount_f = z3.Function('is_mount', State, S, B)
filetext_f = z3.Function('file_text', State, S, S)
listdir_len_f = z3.Function('listdir_len', State, S, I)
listdir_at_f = z3.Function('listdir_at', State, S, I, S)
access_f = z3.Function('access_ok', State, S, B)


class Event(object):
    """one file-system (or I/O) event of the trace"""
    __slots__ = ('op', 'args', 'ok', 'errno', 'pre', 'post', 'idx', 'extra')

    def __init__(self, op, args, ok, errno=None, pre=None, post=None,
                 extra=None):
        self.op = op
        self.args = args
        self.ok = ok
        self.errno = errno
        self.pre = pre
        self.post = post
        self.extra = extra or {}

    def __repr__(self):
        return '%s%r->%s' % (self.op, tuple(self.args),
                             'ok' if self.ok else 'fail')


class FdV(object):
    def __init__(self, path, flags, mode):
        self.path = path
        self.flags = flags
        self.mode = mode
        self.closed = False


class StatV(object):
    def __init__(self, sigma, path, follow):
        self.sigma = sigma
        self.path = path
        self.follow = follow


class ModeV(object):
    def __init__(self, st, mask=None):
        self.st = st
        self.mask = mask


class FileV(object):
    def __init__(self, path, mode, sigma):
        self.path = path
        self.mode = mode
        self.sigma = sigma


class FsState(object):
    """per-path ghost state"""

    def __init__(self, ctx):
        self.ctx = ctx
        self.sigma = z3.Const(ctx.fresh_name('sigma'), State)
        self.sigma0 = self.sigma
        self.events = []
        self.transitions = []   # (pre, post, touched path terms)
        self.mutation_allowed = True
        self.fault_free = False

    def step(self, touched):
        pre = self.sigma
        self.sigma = z3.Const(self.ctx.fresh_name('sigma'), State)
        self.transitions.append((pre, self.sigma, touched))
        return pre, self.sigma

    def record(self, ev):
        ev.idx = len(self.events)
        self.events.append(ev)
        self.ctx.events.append(('fs', ev))
        for h in self.ctx.ghost.get('event_hooks', ()):
            h(ev)
        return ev

    # observations with their axioms ---------------------------------
    def lkind(self, p, sigma=None):
        sigma = self.sigma if sigma is None else sigma
        t = lkind_f(sigma, p)
        self._kind_axioms(sigma, p)
        return t

    def kind(self, p, sigma=None):
        sigma = self.sigma if sigma is None else sigma
        t = kind_f(sigma, p)
        self._kind_axioms(sigma, p)
        return t

    def _kind_axioms(self, sigma, p):
        key = ('kind_ax', tid(sigma), tid(p))
        ctx = self.ctx
        if key in ctx.notes:
            return
        ctx.notes[key] = True
        lk = lkind_f(sigma, p)
        k = kind_f(sigma, p)
        ctx.assume(z3.And(lk >= 0, lk <= 3, k >= 0, k <= 2))
        ctx.assume(z3.Implies(lk == ABSENT, k == ABSENT))
        ctx.assume(z3.Implies(z3.Or(lk == FILE, lk == DIR), k == lk))

    def frame_lkind(self, q):
        """instantiate the frame of every past transition at path q: a
        transition that touched paths T leaves lkind/kind of q unchanged when
        q is none of T and no element of T is a path-prefix of q."""
        for pre, post, touched in self.transitions:
            key = ('frame', tid(pre), tid(q))
            if key in self.ctx.notes:
                continue
            self.ctx.notes[key] = True
            diff = []
            for t in touched:
                diff.append(q != t)
                diff.append(z3.Not(z3.PrefixOf(z3.Concat(t, spec.SLASH), q)))
            cond = z3.And(*diff) if diff else z3.BoolVal(True)
            self._kind_axioms(pre, q)
            self._kind_axioms(post, q)
            self.ctx.assume(z3.Implies(cond, z3.And(
                lkind_f(post, q) == lkind_f(pre, q),
                kind_f(post, q) == kind_f(pre, q))))


def fs_of(interp):
    ctx = interp.ctx
    st = ctx.ghost.get('fs')
    if st is None:
        st = FsState(ctx)
        ctx.ghost['fs'] = st
    return st


def os_error(interp, op, path=None, clsname='OSError'):
    ctx = interp.ctx
    e = interp.make_exc(clsname, 'os error')
    en = ctx.fresh_int('errno')
    ctx.assume(z3.And(en > 0, en < 200))
    e.attrs['errno'] = Sym(en, 'int')
    e.attrs['filename'] = path
    e.attrs['op'] = op
    return e


def mutating(interp, op, args, touched, label=None, can_fail=True,
             atomic=True):
    """fork a mutating primitive into ok / fail; returns the Event (ok) or
    raises PyExc(OSError) after recording the failed event."""
    fs = fs_of(interp)
    ctx = interp.ctx
    if not fs.mutation_allowed:
        ctx.oblige('frame/no-mutation/%s' % op, z3.BoolVal(False),
                   kind='frame', info={'event': repr((op, args))})
    hook = ctx.ghost.get('fault_hook')
    n = 2 if (can_fail and not fs.fault_free) else 1
    d = ctx.choose(n, label or op)
    if d == 0 or not atomic:
        pre, post = fs.step(touched)
    else:
        pre = post = fs.sigma   # a failed atomic primitive changes nothing
    if d == 0:
        ev = fs.record(Event(op, args, True, pre=pre, post=post))
        return ev
    e = os_error(interp, op, args[0] if args else None)
    ev = fs.record(Event(op, args, False, errno=e.attrs['errno'].t, pre=pre,
                         post=post))
    ev.extra['exc'] = e
    raise PyExc(e)


# ---------------------------------------------------------------------------
# models of the primitives
# ---------------------------------------------------------------------------
def m_exists(I_, a, k):
    fs = fs_of(I_)
    return mk(fs.kind(z3str(a[0])) != ABSENT)


def m_lexists(I_, a, k):
    fs = fs_of(I_)
    return mk(fs.lkind(z3str(a[0])) != ABSENT)


def m_isdir(I_, a, k):
    fs = fs_of(I_)
    return mk(fs.kind(z3str(a[0])) == DIR)


def m_isfile(I_, a, k):
    fs = fs_of(I_)
    return mk(fs.kind(z3str(a[0])) == FILE)


def m_islink(I_, a, k):
    fs = fs_of(I_)
    return mk(fs.lkind(z3str(a[0])) == SYMLINK)


def m_ismount(I_, a, k):
    fs = fs_of(I_)
    return mk(ismount_f(fs.sigma, z3str(a[0])))


def m_realpath(I_, a, k):
    fs = fs_of(I_)
    return mk(spec.realpath(I_.ctx, fs.sigma, z3str(a[0])))


def m_access(I_, a, k):
    fs = fs_of(I_)
    p = z3str(a[0])
    r = access_f(fs.sigma, p)
    I_.ctx.assume(z3.Implies(r, fs.lkind(p) != ABSENT))
    return mk(r)


# permission bits (stat.S_IMODE of st_mode), 0..0o7777; bit 0o1000 is the
# sticky bit observed by sticky_f
perm_f = z3.Function('st_perm', State, z3.StringSort(), z3.BoolSort(), z3.IntSort())
dev_f = z3.Function('st_dev', State, z3.StringSort(), z3.BoolSort(), z3.IntSort())


def m_stat(I_, a, k, follow=True):
    fs = fs_of(I_)
    p = z3str(a[0])
    present = (fs.kind(p) if follow else fs.lkind(p)) != ABSENT
    if not I_.ctx.branch(present, 'stat-present'):
        raise PyExc(os_error(I_, 'stat', a[0], 'FileNotFoundError'))
    st = Obj(I_.lib.object_cls)
    st.attrs['st_mode'] = ModeV(StatV(fs.sigma, p, follow))
    st.attrs['st_uid'] = Sym(I_.ctx.fresh_int('st_uid'), 'int')
    st.attrs['st_gid'] = Sym(I_.ctx.fresh_int('st_gid'), 'int')
    size = I_.ctx.fresh_int('st_size')
    I_.ctx.assume(size >= 0)
    st.attrs['st_size'] = Sym(size, 'int')
    # device of the file system the entry (follow: its target) lives on
    st.attrs['st_dev'] = Sym(dev_f(fs.sigma, p, z3.BoolVal(bool(follow))), 'int')
    st.attrs['st_ino'] = Sym(I_.ctx.fresh_int('st_ino'), 'int')
    st.attrs['st_mtime'] = Sym(I_.ctx.fresh_int('st_mtime'), 'int')
    return st


def m_lstat(I_, a, k):
    return m_stat(I_, a, k, follow=False)


def m_listdir(I_, a, k):
    fs = fs_of(I_)
    ctx = I_.ctx
    p = z3str(a[0])
    if not ctx.branch(fs.kind(p) == DIR, 'listdir-isdir'):
        raise PyExc(os_error(I_, 'listdir', a[0]))
    if not fs.fault_free and ctx.choose(2, 'listdir-fails') == 1:
        raise PyExc(os_error(I_, 'listdir', a[0]))
    sg = fs.sigma
    ctx.used_axioms.add("os.listdir: names contain no '/', are not '', '.', "
                        "'..' (instantiated at accessed indices)")
    n = listdir_len_f(sg, p)
    ctx.assume(n >= 0)
    return SymSeq(n, lambda i, sg=sg, p=p: listdir_at_f(
        sg, p, i if z3.is_expr(i) else z3.IntVal(i)), ('listdir', sg, p),
        origin=('listdir', sg, p))


def listdir_element_axioms(ctx, x):
    spec.mark_noslash(ctx, x)
    spec.mark_nonempty(ctx, x)
    ctx.assume(z3.Not(z3.Contains(x, spec.SLASH)))
    ctx.assume(z3.And(x != spec.EMPTY, x != z3.StringVal('.'),
                      x != z3.StringVal('..')))


def m_makedirs(I_, a, k):
    p = z3str(a[0])
    mode = a[1] if len(a) > 1 else k.get('mode', 0o777)
    fs = fs_of(I_)
    ev = mutating(I_, 'makedirs', [p, mode], [p], 'makedirs', atomic=False)
    # success: path is now a directory
    I_.ctx.assume(fs.kind(p) == DIR)
    I_.ctx.assume(fs.lkind(p) == DIR)
    return None


def m_mkdir(I_, a, k):
    p = z3str(a[0])
    mode = a[1] if len(a) > 1 else k.get('mode', 0o777)
    fs = fs_of(I_)
    mutating(I_, 'mkdir', [p, mode], [p], 'mkdir')
    I_.ctx.assume(fs.kind(p) == DIR)
    I_.ctx.assume(fs.lkind(p) == DIR)
    return None


def m_open(I_, a, k):
    """os.open(path, flags, mode)"""
    p = z3str(a[0])
    flags = a[1]
    mode = a[2] if len(a) > 2 else 0o777
    if is_sym(flags):
        raise OutsideSubset('os.open symbolic flags')
    fs = fs_of(I_)
    ctx = I_.ctx
    O_CREAT, O_EXCL = 0o100, 0o200
    excl = (flags & O_CREAT) and (flags & O_EXCL)
    pre_lk = fs.lkind(p)
    if excl:
        # exclusive create fails whenever the name is taken (EEXIST)
        if ctx.branch(pre_lk != ABSENT, 'open-excl-taken'):
            pre = post = fs.sigma
            e = os_error(I_, 'open', a[0], 'FileExistsError')
            ctx.assume(e.attrs['errno'].t == 17)
            ev = fs.record(Event('open', [p, flags, mode], False,
                                 errno=e.attrs['errno'].t, pre=pre, post=post))
            ev.extra['exc'] = e
            raise PyExc(e)
    ev = mutating(I_, 'open', [p, flags, mode], [p], 'open')
    ev.extra['excl'] = bool(excl)
    ev.extra['pre_lkind'] = pre_lk
    if flags & O_CREAT:
        ctx.assume(fs.lkind(p) != ABSENT)
        if excl:
            ctx.assume(fs.lkind(p) == FILE)
    fd = FdV(p, flags, mode)
    ev.extra['fd'] = fd
    return fd


def m_write(I_, a, k):
    fd, content = a
    if not isinstance(fd, FdV):
        raise OutsideSubset('os.write on %r' % (fd,))
    c = content.t if is_sym(content) else z3str(content)
    I_.ctx.used_axioms.add('os.write on a regular file writes the whole '
                           'buffer or fails (no short writes)')
    ev = mutating(I_, 'write', [fd.path, c], [fd.path], 'write')
    ev.extra['fd'] = fd
    return mk(z3.Length(c))


def m_close(I_, a, k):
    fd = a[0]
    if not isinstance(fd, FdV):
        raise OutsideSubset('os.close on %r' % (fd,))
    fd.closed = True
    ev = mutating(I_, 'close', [fd.path], [], 'close')
    ev.extra['fd'] = fd
    return None


def m_remove(I_, a, k):
    p = z3str(a[0])
    fs = fs_of(I_)
    ctx = I_.ctx
    pre_lk = fs.lkind(p)
    # unlink(2) fails on directories and missing names
    if ctx.branch(z3.Or(pre_lk == ABSENT, pre_lk == DIR), 'remove-cannot'):
        pre = post = fs.sigma
        e = os_error(I_, 'remove', a[0])
        ev = fs.record(Event('remove', [p], False, errno=e.attrs['errno'].t,
                             pre=pre, post=post))
        ev.extra['exc'] = e
        ev.extra['pre_lkind'] = pre_lk
        raise PyExc(e)
    ev = mutating(I_, 'remove', [p], [p], 'remove')
    ev.extra['pre_lkind'] = pre_lk
    ctx.assume(fs.lkind(p) == ABSENT)
    return None


def m_rename(I_, a, k):
    src, dst = z3str(a[0]), z3str(a[1])
    fs = fs_of(I_)
    ctx = I_.ctx
    pre_src = fs.lkind(src)
    pre_dst = fs.lkind(dst)
    if ctx.branch(pre_src == ABSENT, 'rename-src-missing'):
        pre = post = fs.sigma
        e = os_error(I_, 'rename', a[0], 'FileNotFoundError')
        ev = fs.record(Event('rename', [src, dst], False,
                             errno=e.attrs['errno'].t, pre=pre, post=post))
        ev.extra['exc'] = e
        raise PyExc(e)
    ev = mutating(I_, 'rename', [src, dst], [src, dst], 'rename')
    ev.extra['pre_src'] = pre_src
    ev.extra['pre_dst'] = pre_dst
    ctx.assume(fs.lkind(src) == ABSENT)
    ctx.assume(fs.lkind(dst) == pre_src)
    return None


def m_rmtree(I_, a, k):
    """shutil.rmtree(p): refuses a symlink argument; never follows links
    inside; may fail part-way (subtree partially removed)."""
    p = z3str(a[0])
    fs = fs_of(I_)
    ctx = I_.ctx
    I_.ctx.used_axioms.add('shutil.rmtree: raises on a symlink argument, does '
                           'not follow inner links, may fail part-way')
    pre_lk = fs.lkind(p)
    if ctx.branch(pre_lk != DIR, 'rmtree-notdir'):
        pre = post = fs.sigma
        e = os_error(I_, 'rmtree', a[0])
        ev = fs.record(Event('rmtree', [p], False, errno=e.attrs['errno'].t,
                             pre=pre, post=post))
        ev.extra['exc'] = e
        ev.extra['pre_lkind'] = pre_lk
        raise PyExc(e)
    try:
        ev = mutating(I_, 'rmtree', [p], [p], 'rmtree', atomic=False)
    except PyExc:
        fs.events[-1].extra['partial'] = True
        fs.events[-1].extra['pre_lkind'] = pre_lk
        raise
    ev.extra['pre_lkind'] = pre_lk
    ctx.assume(fs.lkind(p) == ABSENT)
    return None


def m_shutil_move(I_, a, k):
    """shutil.move(src, dst), modelled in phases (DESIGN.md 2.4):
       real_dst = dst/basename(src) if dst is a directory (refuse if taken);
       rename ok => moved;
       rename fails (any errno) => Error if dst inside src, else copy phase
       (src intact, dst partial on failure) then delete phase (dst complete,
       src partial on failure)."""
    ctx = I_.ctx
    fs = fs_of(I_)
    ctx.used_axioms.add('shutil.move phase model: rename, else copy then '
                        'delete; failures leave partial copies')
    src, dst0 = z3str(a[0]), z3str(a[1])
    if len(a) > 2 or k:
        # a non-default copy_function changes what the copy preserves
        ctx.events.append(('shutil.move-options', sorted(k) + ['positional'] * (len(a) - 2)))
    dst = dst0
    dst_was_dir = False
    if ctx.branch(fs.kind(dst0) == DIR, 'move-dst-isdir'):
        dst_was_dir = True
        # (the samefile case-insensitive special case is ignored)
        b = spec.basename(ctx, spec.rstrip_slashes(ctx, src))
        dst = spec.join(dst0, b)
        if ctx.branch(fs.kind(dst) != ABSENT, 'move-realdst-exists'):
            e = I_.make_exc('OSError', 'already exists')
            e.cls = I_.lib.exc_classes['shutil.Error']
            pre = post = fs.sigma
            ev = fs.record(Event('move-refused', [src, dst], False, pre=pre,
                                 post=post))
            raise PyExc(e)
    try:
        m_rename(I_, [mk(src), mk(dst)], {})
        fs.events[-1].extra['via'] = 'shutil.move'
        fs.events[-1].extra['dst_was_dir'] = dst_was_dir
        return mk(dst)
    except PyExc as pe:
        rename_ev = fs.events[-1]
        rename_ev.extra['via'] = 'shutil.move'
        rename_ev.extra['dst_was_dir'] = dst_was_dir
        if not pe.value.cls.issubclass(I_.lib.exc_classes['OSError']):
            raise
    # copy phase
    if ctx.choose(2, 'move-dst-in-src') == 1:
        e = I_.make_exc('OSError', 'cannot move into itself')
        e.cls = I_.lib.exc_classes['shutil.Error']
        raise PyExc(e)
    try:
        ev = mutating(I_, 'copy', [src, dst], [dst], 'move-copy', atomic=False)
    except PyExc:
        fs.events[-1].extra['partial'] = True
        raise
    ctx.assume(fs.lkind(dst) != ABSENT)       # the copy is complete
    try:
        ev = mutating(I_, 'delete-src', [src], [src], 'move-delete',
                      atomic=False)
    except PyExc:
        fs.events[-1].extra['partial'] = True
        raise
    ctx.assume(fs.lkind(src) == ABSENT)
    ctx.assume(fs.lkind(dst) != ABSENT)       # deleting src leaves dst alone
    return mk(dst)


def m_simple_mutation(op, nargs=1):
    def f(I_, a, k):
        paths = [z3str(x) for x in a[:nargs]]
        ev = mutating(I_, op, paths + list(a[nargs:]), paths, op)
        return None
    return f


def m_normcase(I_, a, k):
    return a[0]


def m_getuid(I_, a, k):
    u = I_.ctx.fresh_int('uid')
    I_.ctx.assume(u >= 0)
    return mk(u)


def m_getpid(I_, a, k):
    u = I_.ctx.fresh_int('pid')
    I_.ctx.assume(u >= 1)
    return mk(u)


def m_strerror(I_, a, k):
    return mk(I_.ctx.fresh_str('strerror'))


def m_isatty(I_, a, k):
    r = mk(I_.ctx.fresh_bool('isatty'))
    I_.ctx.ghost.setdefault('isatty_calls', []).append((a[0], r))
    return r


class _OpenCM(object):
    pass


def open_model(I_, a, k):
    """builtin open(path[, mode]) used as a context manager for text I/O"""
    path = a[0]
    mode = a[1] if len(a) > 1 else k.get('mode', 'r')
    if not isinstance(mode, str):
        raise OutsideSubset('open with symbolic mode')
    if len(a) > 2 or set(k) - {'mode'}:
        raise OutsideSubset('open() with encoding/errors/buffering arguments: '
                            'decoding behaviour not modelled')
    fs = fs_of(I_)
    ctx = I_.ctx
    p = z3str(path)
    f = Obj(I_.lib.object_cls)
    f.attrs['__fsfile__'] = FileV(p, mode, fs.sigma)
    if 'r' in mode:
        sg0 = fs.sigma
        if not fs.fault_free and ctx.choose(2, 'open-read') == 1:
            ctx.events.append(('read', p, sg0, False, filetext_f(sg0, p)))
            raise PyExc(os_error(I_, 'open', path))
        ctx.assume(fs.kind(p) != ABSENT)

        def read(I2, a2, k2):
            c = I2.ctx
            if a2 or k2:
                raise OutsideSubset('file.read(n): partial reads not modelled')
            c.used_axioms.add('text-mode read: returns the decoded content or '
                              'raises UnicodeDecodeError / OSError')
            d = c.choose(3 if not fs.fault_free else 2, 'read-outcome')
            txt = filetext_f(sg0, p)
            c.events.append(('read', p, sg0, d == 0, txt))
            if d == 1:
                raise PyExc(I2.make_exc('UnicodeDecodeError', 'invalid byte'))
            if d == 2:
                raise PyExc(os_error(I2, 'read', path))
            return mk(txt)
        f.attrs['read'] = Builtin('file.read', read)
    else:
        mutating(I_, 'open-write', [p, mode], [p], 'open-write')

        def write(I2, a2, k2):
            mutating(I2, 'file-write', [p, z3str(a2[0])], [p], 'file-write')
            return None
        f.attrs['write'] = Builtin('file.write', write)
    f.attrs['__enter__'] = Builtin('file.__enter__', lambda I2, a2, k2: f)
    f.attrs['__exit__'] = Builtin('file.__exit__', lambda I2, a2, k2: None)
    f.attrs['close'] = Builtin('file.close', lambda I2, a2, k2: None)
    return f


def register(lib):
    r = lib.registry
    B_ = Builtin
    for name, fn in (
            ('posixpath.exists', m_exists), ('posixpath.lexists', m_lexists),
            ('posixpath.isdir', m_isdir), ('posixpath.isfile', m_isfile),
            ('posixpath.islink', m_islink), ('posixpath.ismount', m_ismount),
            ('posixpath.realpath', m_realpath), ('os.access', m_access),
            ('os.stat', m_stat), ('os.lstat', m_lstat),
            ('os.listdir', m_listdir), ('os.makedirs', m_makedirs),
            ('os.mkdir', m_mkdir), ('os.open', m_open), ('os.write', m_write),
            ('os.close', m_close), ('os.remove', m_remove),
            ('os.unlink', m_remove), ('os.rename', m_rename),
            ('shutil.rmtree', m_rmtree), ('shutil.move', m_shutil_move),
            ('os.getuid', m_getuid), ('os.isatty', m_isatty),
            ('os.getpid', m_getpid), ('os.strerror', m_strerror),
            ('os.chmod', m_simple_mutation('chmod')),
            ('os.rmdir', m_simple_mutation('rmdir')),
            ('os.utime', m_simple_mutation('utime')),
            ('os.chown', m_simple_mutation('chown')),
            ('os.symlink', m_simple_mutation('symlink', 2)),
            ('os.link', m_simple_mutation('link', 2)),
            ('os.replace', m_rename),
            ('shutil.copy2', m_simple_mutation('copy', 2)),
            ('shutil.copy', m_simple_mutation('copy', 2)),
            ('shutil.copyfile', m_simple_mutation('copy', 2)),
            ('shutil.copytree', m_simple_mutation('copy', 2)),
            ('posixpath.normcase', m_normcase)):
        r[name] = B_(name, fn)
    r['os.EX_OK'] = 0
    r['os.EX_USAGE'] = 64
    r['os.EX_IOERR'] = 74
    r['os.environ'] = B_('os.environ', None)   # replaced per path, see below
    r['sys.stdout'] = StreamV('stdout')
    r['sys.stderr'] = StreamV('stderr')
    r['sys.argv'] = ['prog']
    r['sys.exit'] = B_('sys.exit', _sys_exit)


def lib_opaque(name):
    from .values import Opaque
    return Opaque(name)


def _sys_exit(I_, a, k):
    e = I_.make_exc('SystemExit', '')
    e.attrs['code'] = a[0] if a else None
    I_.ctx.events.append(('exit', e.attrs['code']))
    raise PyExc(e)
