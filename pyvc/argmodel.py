"""A model of argparse.ArgumentParser for the argument vectors the option VCs
generate.

Supported: add_argument with option strings or one positional name;
action in store (default) / store_true / store_false / store_const / append /
count / version / help; nargs None, '?', '*' for positionals; type=int/str;
choices; default; dest (explicit or derived); const.

parse_args(argv) supports argument vectors of the CANONICAL shape

    [option tokens and their values]... ['--'] [positionals]...

where every option token is a concrete string equal to a registered option
string (no abbreviations, no '--opt=value', no clustered short flags) and
every value / positional is a concrete or symbolic string that does not begin
with '-' unless it follows '--'.  Anything else raises OutsideSubset (the VC
is then undecided, never refuted).  Inside that shape the behaviour is
argparse's: later options override earlier ones, count adds, append appends,
an unknown option or a missing / option-like value or a surplus positional or
a failing type conversion or a value outside `choices` is `parser.error`
(message to stderr, SystemExit(2)); version / help exit 0.  The model is
compared with the real argparse on generated vectors in the thorough tier
(pyvc/validate.py: argparse_models)."""
import z3

from .values import (Builtin, ClassV, Obj, Opaque, OutsideSubset, PyExc, Sym,
                     is_sym, mk, z3str)


class ActionV(object):
    def __init__(self, names, kw):
        self.names = names
        self.kw = kw
        self.attrs = {}
        self.positional = not names[0].startswith('-')
        act = kw.get('action', 'store')
        self.action = act
        if 'dest' in kw:
            self.dest = kw['dest']
        elif self.positional:
            self.dest = names[0]
        else:
            longs = [n for n in names if n.startswith('--')]
            self.dest = (longs[0] if longs else names[0]).lstrip('-').replace('-', '_')
        self.nargs = kw.get('nargs')
        self.type = kw.get('type')
        self.choices = kw.get('choices')
        self.const = kw.get('const')
        if 'default' in kw:
            self.default = kw['default']
        elif act == 'store_true':
            self.default = False
        elif act == 'store_false':
            self.default = True
        else:
            self.default = None

    def __repr__(self):
        return '<argparse action %s>' % '/'.join(self.names)


class ArgParserV(object):
    def __init__(self, kw):
        self.kw = kw
        self.actions = []
        self.prog = kw.get('prog')
        # argparse adds -h/--help unless add_help=False
        if kw.get('add_help', True) is not False:
            self.actions.append(ActionV(['-h', '--help'], {'action': 'help',
                                                           'dest': 'help'}))

    def __repr__(self):
        return '<ArgumentParser %d actions>' % len(self.actions)


_SUPPRESS = '==SUPPRESS=='


def _exit(I, code):
    e = I.make_exc('SystemExit', '')
    e.attrs['code'] = code
    I.ctx.events.append(('exit', code))
    raise PyExc(e)


def _error(I, parser, msg):
    I.ctx.events.append(('print', 'stderr', 'usage-and-error: %s' % (msg,)))
    I.ctx.events.append(('argparse-error', msg))
    _exit(I, 2)


def _convert(I, parser, act, v):
    t = act.type
    if t is not None:
        name = getattr(t, 'name', None)
        if name == 'int':
            try:
                v = I.lib.bi_int(I, [v], {})
            except PyExc:
                _error(I, parser, 'argument %s: invalid int value' % act.names[0])
        elif name == 'str':
            pass
        else:
            raise OutsideSubset('argparse type=%r' % (t,))
    if act.choices is not None:
        ch = list(I.iterate(act.choices))
        r = I.lib.contains(ch, v)
        ok = r if isinstance(r, bool) else I.ctx.branch(r.t, 'argparse-choice')
        if not ok:
            _error(I, parser, 'argument %s: invalid choice' % act.names[0])
        if is_sym(v):
            # inside `choices`: pin the value to the member it equals so that
            # later dictionary lookups on it are concrete
            for c in ch:
                if I.ctx.entails(z3str(v) == z3str(c)):
                    v = c
                    break
            else:
                idx = I.ctx.fork([z3str(v) == z3str(c) for c in ch], 'argparse-which-choice')
                v = ch[idx]
    return v


def _looks_like_option(I, tok):
    """True/False for a concrete token; for a symbolic one the shape
    assumption (does not begin with '-') must be entailed"""
    if isinstance(tok, str):
        return tok.startswith('-') and tok != '-'
    if is_sym(tok) and tok.ty == 'str':
        if I.ctx.entails(z3.Not(z3.PrefixOf(z3.StringVal('-'), tok.t))):
            return False
        raise OutsideSubset('argparse: symbolic token that may begin with "-"')
    raise OutsideSubset('argparse token %r' % (tok,))


def parse_args(I, parser, argv):
    toks = list(I.iterate(argv))
    ns = Obj(I.lib.object_cls)
    for a in parser.actions:
        if a.action in ('help', 'version') or isinstance(a.action, ClassV):
            continue
        if a.default is not _SUPPRESS and a.dest not in ns.attrs:
            d = a.default
            if a.positional and a.nargs == '*' and d is None:
                d = []
            ns.attrs[a.dest] = d
    by_name = {}
    for a in parser.actions:
        if not a.positional:
            for n in a.names:
                by_name[n] = a
    i = 0
    positionals = []
    phase = 'options'
    while i < len(toks):
        t = toks[i]
        if phase == 'after-ddash':
            positionals.append(t)
            i += 1
            continue
        if isinstance(t, str) and t == '--':
            phase = 'after-ddash'
            i += 1
            continue
        if not _looks_like_option(I, t):
            if phase == 'options':
                phase = 'positionals'
            positionals.append(t)
            i += 1
            continue
        # an option token
        if phase == 'positionals':
            raise OutsideSubset('argparse: options after positionals')
        if t not in by_name:
            if '=' in t or any(n.startswith(t) for n in by_name) or \
                    (not t.startswith('--') and len(t) > 2):
                raise OutsideSubset('argparse: abbreviation / = / cluster %r' % t)
            _error(I, parser, 'unrecognized arguments: %s' % t)
        a = by_name[t]
        act = a.action
        i += 1
        if isinstance(act, ClassV):
            raise OutsideSubset('argparse: custom action %s' % act.name)
        if act == 'store_true':
            ns.attrs[a.dest] = True
        elif act == 'store_false':
            ns.attrs[a.dest] = False
        elif act == 'store_const':
            ns.attrs[a.dest] = a.const
        elif act == 'count':
            cur = ns.attrs.get(a.dest)
            ns.attrs[a.dest] = (0 if cur is None else cur) + 1
        elif act == 'help':
            I.ctx.events.append(('print', 'stdout', 'help text'))
            _exit(I, 0)
        elif act == 'version':
            I.ctx.events.append(('print', 'stdout', 'version text'))
            _exit(I, 0)
        elif act in ('store', 'append'):
            if a.nargs is not None:
                raise OutsideSubset('argparse: option with nargs')
            if i >= len(toks) or (isinstance(toks[i], str) and toks[i] == '--') \
                    or _looks_like_option(I, toks[i]):
                _error(I, parser, 'argument %s: expected one argument' % t)
            v = _convert(I, parser, a, toks[i])
            i += 1
            if act == 'store':
                ns.attrs[a.dest] = v
            else:
                cur = ns.attrs.get(a.dest)
                ns.attrs[a.dest] = list(cur or []) + [v]
        else:
            raise OutsideSubset('argparse action %r' % (act,))
    # positionals
    pacts = [a for a in parser.actions if a.positional]
    if not pacts and phase == 'after-ddash':
        # no positional action consumes the '--': it is an extra argument
        _error(I, parser, 'unrecognized arguments: --')
    k = 0
    for a in pacts:
        if a.nargs is None:
            if k >= len(positionals):
                _error(I, parser, 'the following arguments are required: %s' % a.dest)
            ns.attrs[a.dest] = _convert(I, parser, a, positionals[k])
            k += 1
        elif a.nargs == '?':
            if k < len(positionals):
                ns.attrs[a.dest] = _convert(I, parser, a, positionals[k])
                k += 1
        elif a.nargs == '*':
            ns.attrs[a.dest] = [_convert(I, parser, a, p) for p in positionals[k:]]
            k = len(positionals)
        else:
            raise OutsideSubset('argparse nargs=%r' % (a.nargs,))
    if k < len(positionals):
        _error(I, parser, 'unrecognized arguments')
    return ns


def _add_argument(I, parser, a, k):
    names = [x for x in a]
    if not names or not all(isinstance(n, str) for n in names):
        raise OutsideSubset('argparse.add_argument names %r' % (names,))
    act = ActionV(names, dict(k))
    parser.actions.append(act)
    return act


def install(lib):
    """registry entries and attribute access of the model objects"""
    lib.registry['argparse.ArgumentParser'] = Builtin(
        'argparse.ArgumentParser', lambda I, a, k: ArgParserV(dict(k)))
    lib.registry['argparse.SUPPRESS'] = _SUPPRESS
    for n in ('RawDescriptionHelpFormatter', 'ArgumentDefaultsHelpFormatter',
              'HelpFormatter'):
        lib.registry['argparse.' + n] = Opaque('argparse.' + n)


def value_attr(lib, o, name):
    """attributes of ArgParserV / ActionV; returns NotImplemented if not ours"""
    if isinstance(o, ArgParserV):
        if name == 'add_argument':
            return Builtin('ArgumentParser.add_argument',
                           lambda I, a, k, o=o: _add_argument(I, o, a, k))
        if name == 'parse_args':
            return Builtin('ArgumentParser.parse_args',
                           lambda I, a, k, o=o: parse_args(I, o, a[0]))
        if name == 'error':
            return Builtin('ArgumentParser.error',
                           lambda I, a, k, o=o: _error(I, o, a[0] if a else ''))
        if name == 'exit':
            return Builtin('ArgumentParser.exit',
                           lambda I, a, k, o=o: _exit(I, a[0] if a else 0))
        if name == 'prog':
            return o.prog
        raise OutsideSubset('ArgumentParser.%s is not modelled' % name)
    if isinstance(o, ActionV):
        if name in o.attrs:
            return o.attrs[name]
        if name in ('dest', 'default', 'const', 'nargs', 'choices'):
            return getattr(o, name)
        raise OutsideSubset('argparse.Action.%s is not modelled' % name)
    return NotImplemented
