"""Run INSIDE `unshare -m` under /venv/bin/python: cross-device trash-put.

usage: xdev_inner.py <repo> move|kill

Layout (all inside a private mount namespace, on fresh tmpfs mounts):
  R/home            HOME, XDG_DATA_HOME=R/home/.local/share  (volume R)
  R/ext             second tmpfs; .Trash and .Trash-<uid> are regular files, so
                    both volume trash directories are unusable and, with
                    TRASH_ENABLE_HOME_FALLBACK=1 --home-fallback, trash-put
                    falls back to the home trash ACROSS devices (rename fails
                    with EXDEV, copy+delete follows).
Prints one JSON document: {"problems": [...], "cases": n, ...}."""
import hashlib
import json
import os
import stat
import subprocess
import sys

R = '/tmp/pyvc-xdev'
PY = sys.executable
HERE = os.path.dirname(os.path.abspath(__file__))


def snap(p):
    """a comparable description of the entry at p (not following links):
    kind, bytes, link target, permission bits, mtime, recursively"""
    try:
        st = os.lstat(p)
    except OSError:
        return None
    if stat.S_ISLNK(st.st_mode):
        return ('link', os.readlink(p))
    if stat.S_ISDIR(st.st_mode):
        return ('dir', stat.S_IMODE(st.st_mode), st.st_mtime_ns,
                tuple(sorted((n, snap(os.path.join(p, n)))
                             for n in os.listdir(p))))
    with open(p, 'rb') as f:
        h = hashlib.sha1(f.read()).hexdigest()
    return ('file', stat.S_IMODE(st.st_mode), st.st_mtime_ns, st.st_size, h)


def strip_dir_mtime(s):
    """directory mtimes change when children are unlinked during a killed run;
    compare trees without them where a run was interrupted"""
    if s and s[0] == 'dir':
        return ('dir', s[1], tuple((n, strip_dir_mtime(c)) for n, c in s[3]))
    return s


def sh(*a):
    subprocess.check_call(list(a))


def setup():
    os.makedirs(R, exist_ok=True)
    sh('mount', '-t', 'tmpfs', 'tmpfs', R)
    os.makedirs(R + '/home/targetdir')
    os.makedirs(R + '/ext')
    sh('mount', '-t', 'tmpfs', 'tmpfs', R + '/ext')
    with open(R + '/home/targetdir/inner', 'w') as f:
        f.write('inner of the link target')
    with open(R + '/home/targetfile', 'w') as f:
        f.write('target file')
    uid = os.getuid()
    for n in ('.Trash', '.Trash-%d' % uid):
        with open(os.path.join(R, 'ext', n), 'w') as f:
            f.write('not a directory')
    e = R + '/ext'

    def w(rel, text, mode, mtime):
        p = os.path.join(e, rel)
        with open(p, 'w') as f:
            f.write(text)
        os.chmod(p, mode)
        os.utime(p, (mtime, mtime))
    w('f', 'content of f', 0o640, 1000000000)
    w('empty', '', 0o600, 1100000000)
    os.makedirs(e + '/tree/sub/emptydir')
    w('tree/a.txt', 'a' * 5000, 0o604, 1200000000)
    w('tree/sub/b.bin', 'b' * 70000, 0o755, 1300000000)
    os.symlink('../a.txt', e + '/tree/sub/link')
    os.symlink('nowhere', e + '/tree/sub/dangling')
    os.symlink(R + '/home/targetdir', e + '/tree/sub/dirlink')
    os.chmod(e + '/tree/sub/emptydir', 0o750)
    os.chmod(e + '/tree/sub', 0o711)
    for d, t in (('tree/sub/emptydir', 1400000000), ('tree/sub', 1500000000),
                 ('tree', 1600000000)):
        os.utime(os.path.join(e, d), (t, t))
    os.symlink('f', e + '/lf')
    os.symlink(R + '/home/targetdir', e + '/ld')
    os.symlink(R + '/home/targetfile', e + '/labs')
    os.symlink('nothing-here', e + '/dl')


def teardown():
    subprocess.call(['umount', '-l', R + '/ext'])
    subprocess.call(['umount', '-l', R])


def env(repo):
    return {'PATH': os.environ.get('PATH', ''), 'HOME': R + '/home',
            'XDG_DATA_HOME': R + '/home/.local/share', 'LANG': 'C.UTF-8',
            'LC_ALL': 'C.UTF-8', 'PYTHONPATH': repo,
            'TRASH_ENABLE_HOME_FALLBACK': '1'}


ENTRIES = [('f', 'f'), ('empty', 'empty'), ('tree', 'tree'), ('tree/', 'tree'),
           ('lf', 'lf'), ('ld', 'ld'), ('ld/', 'ld'), ('labs', 'labs'),
           ('dl', 'dl')]
TD = R + '/home/.local/share/Trash'


def check_trashed(label, name, before, problems, interrupted=False):
    payload = os.path.join(TD, 'files', name)
    info = os.path.join(TD, 'info', name + '.trashinfo')
    got = snap(payload)
    if got != before:
        problems.append('%s: the payload in the home trash differs from the '
                        'original entry: original %r, trashed %r' % (
                            label, _short(before), _short(got)))
    try:
        txt = open(info).read()
    except OSError:
        txt = None
    want = 'Path=%s/ext/%s\n' % (R, name)
    if txt is None or not txt.startswith('[Trash Info]\n') or want not in txt \
            or 'DeletionDate=' not in txt:
        problems.append('%s: info file missing or wrong: %r' % (label, txt))


def _short(s, depth=0):
    r = repr(s)
    return r if len(r) < 300 else r[:300] + '...'


def mode_move(repo):
    problems = []
    n = 0
    for arg, name in ENTRIES:
        for opts in ([], ['-v']):
            setup()
            try:
                n += 1
                src = os.path.join(R, 'ext', name)
                before = snap(src)
                targets0 = (snap(R + '/home/targetdir'), snap(R + '/home/targetfile'))
                p = subprocess.run(
                    [PY, os.path.join(repo, 'trash-put'), '--home-fallback'] +
                    opts + ['--', arg], cwd=R + '/ext', env=env(repo),
                    capture_output=True, text=True, timeout=60)
                label = 'cross-device trash-put %s %s' % (' '.join(opts), arg)
                if 'Traceback' in p.stderr:
                    problems.append('%s: traceback %s' % (label, p.stderr[-300:]))
                if p.returncode != 0:
                    problems.append('%s: exit %d: %s' % (label, p.returncode,
                                                         p.stderr[-300:]))
                    if snap(src) != before:
                        problems.append('%s: failed but the entry changed' % label)
                    continue
                if os.path.lexists(src):
                    problems.append('%s: exit 0 but the entry is still in place' % label)
                check_trashed(label, name, before, problems)
                if (snap(R + '/home/targetdir'), snap(R + '/home/targetfile')) != targets0:
                    problems.append('%s: the link target changed' % label)
            finally:
                teardown()
    return {'problems': problems, 'cases': n}


def mode_kill(repo, max_ops=400):
    problems = []
    explored = 0
    driver = os.path.join(HERE, 'faultrun.py')
    for arg, name in (('f', 'f'), ('tree', 'tree'), ('lf', 'lf'), ('ld/', 'ld')):
        k = 1
        while k <= max_ops:
            setup()
            try:
                src = os.path.join(R, 'ext', name)
                before = snap(src)
                cfg = {'kill_at': k, 'log': R + '/home/faultlog.json'}
                p = subprocess.run(
                    [PY, driver, os.path.join(repo, 'trash-put'), json.dumps(cfg),
                     '--home-fallback', '--', arg], cwd=R + '/ext',
                    env=env(repo), capture_output=True, text=True, timeout=60)
                explored += 1
                try:
                    ops = json.load(open(cfg['log']))
                    last = ops[-1][1:] if ops else None
                except Exception:
                    last = None
                label = 'cross-device trash-put %s killed before op #%d %r' % (
                    arg, k, last)
                payload = os.path.join(TD, 'files', name)
                info = os.path.join(TD, 'info', name + '.trashinfo')
                b = strip_dir_mtime(before)
                in_place = strip_dir_mtime(snap(src)) == b
                in_trash = strip_dir_mtime(snap(payload)) == b
                if not in_place and not in_trash:
                    problems.append('%s: the entry is complete neither at its '
                                    'original location nor in the trash' % label)
                if os.path.lexists(payload):
                    try:
                        txt = open(info).read()
                    except OSError:
                        txt = None
                    if txt is None or ('Path=%s/ext/%s\n' % (R, name)) not in txt \
                            or 'DeletionDate=' not in txt:
                        problems.append('%s: payload present without a complete '
                                        'info file (%r)' % (label, txt))
                if p.returncode != 99:
                    break
            finally:
                teardown()
            k += 1
    return {'problems': problems, 'kill_points_explored': explored}


def mode_restore(repo, max_ops=300):
    """C02/C15 across devices: every entry kind is trashed from the second
    volume into the home trash (cross-device) and restored back (cross-device
    again): the restored entry equals the original; then the restore is
    killed before every mutating operation: the entry is complete in the
    trash (payload AND info) or complete at its original location, and the
    info file never disappears before the payload has arrived"""
    problems = []
    explored = 0
    driver = os.path.join(HERE, 'faultrun.py')

    def put(name):
        return subprocess.run(
            [PY, os.path.join(repo, 'trash-put'), '--home-fallback', '--', name],
            cwd=R + '/ext', env=env(repo), capture_output=True, text=True, timeout=60)
    for arg, name in (('f', 'f'), ('tree', 'tree'), ('lf', 'lf'), ('ld', 'ld'),
                      ('dl', 'dl')):
        # plain round trip
        setup()
        try:
            src = os.path.join(R, 'ext', name)
            before = snap(src)
            p = put(arg)
            if p.returncode != 0:
                continue          # the put side is judged by mode 'move'
            r = subprocess.run([PY, os.path.join(repo, 'trash-restore'), R + '/ext'],
                               input='0\n', cwd=R + '/ext', env=env(repo),
                               capture_output=True, text=True, timeout=60)
            got = snap(src)
            if got != before:
                problems.append('cross-device put+restore of %s: restored %r, original %r'
                                % (name, _short(got), _short(before)))
            if os.path.lexists(os.path.join(TD, 'files', name)) or \
                    os.path.lexists(os.path.join(TD, 'info', name + '.trashinfo')):
                problems.append('cross-device restore of %s left the entry in the trash'
                                % name)
        finally:
            teardown()
        # kill points of the restore
        k = 1
        while k <= max_ops:
            setup()
            try:
                src = os.path.join(R, 'ext', name)
                before = strip_dir_mtime(snap(src))
                if put(arg).returncode != 0:
                    break
                cfg = {'kill_at': k, 'log': R + '/home/faultlog.json', 'stdin': '0\n'}
                p = subprocess.run(
                    [PY, driver, os.path.join(repo, 'trash-restore'), json.dumps(cfg),
                     R + '/ext'], cwd=R + '/ext', env=env(repo),
                    capture_output=True, text=True, timeout=60)
                explored += 1
                try:
                    ops = json.load(open(cfg['log']))
                    last = ops[-1][1:] if ops else None
                except Exception:
                    last = None
                label = 'cross-device restore of %s killed before op #%d %r' % (name, k, last)
                payload = os.path.join(TD, 'files', name)
                info = os.path.join(TD, 'info', name + '.trashinfo')
                in_place = strip_dir_mtime(snap(src)) == before
                in_trash = strip_dir_mtime(snap(payload)) == before
                if not in_place and not in_trash:
                    problems.append('%s: the entry is complete neither in the trash '
                                    'nor at its original location' % label)
                if not in_place and not os.path.exists(info):
                    problems.append('%s: the info file is gone although the entry has '
                                    'not arrived' % label)
                if p.returncode != 99:
                    break
            finally:
                teardown()
            k += 1
    return {'problems': problems, 'kill_points_explored': explored}


def main():
    repo, mode = sys.argv[1], sys.argv[2]
    out = {'move': mode_move, 'kill': mode_kill, 'restore': mode_restore}[mode](repo)
    out['problems'] = out['problems'][:12]
    print('XDEV-RESULT ' + json.dumps(out))


main()
