"""Discharging obligations: z3 (Python API) first, then cvc5 and z3-new CLIs
on `unknown` (DESIGN.md 2.5).  Verdicts: 'unsat' | 'sat' | 'unknown'."""
import multiprocessing
import os
import re
import subprocess
import tempfile
import time

import z3

Z3_QUICK_MS = int(os.environ.get('PYVC_Z3_QUICK_MS', '2000'))
Z3_TIMEOUT_MS = int(os.environ.get('PYVC_Z3_TIMEOUT_MS', '20000'))
CVC5_TIMEOUT_S = int(os.environ.get('PYVC_CVC5_TIMEOUT_S', '40'))
Z3NEW_TIMEOUT_S = int(os.environ.get('PYVC_Z3NEW_TIMEOUT_S', '30'))
NPROC = int(os.environ.get('PYVC_NPROC', '14'))
PATIENT_CVC5_S = int(os.environ.get('PYVC_PATIENT_CVC5_S', '120'))
PATIENT_Z3_MS = int(os.environ.get('PYVC_PATIENT_Z3_MS', '60000'))


def to_smt2(assumptions, goal, expect):
    s = z3.Solver()
    for a in assumptions:
        s.add(a)
    if expect == 'valid':
        s.add(z3.Not(goal))
    else:
        s.add(goal)
    return s.to_smt2()


def _model_to_dict(m):
    out = {}
    for d in m.decls():
        try:
            if d.arity() == 0:
                v = m[d]
                if z3.is_string_value(v):
                    out[d.name()] = {'str': v.as_string()}
                elif z3.is_int_value(v):
                    out[d.name()] = {'int': v.as_long()}
                elif z3.is_true(v) or z3.is_false(v):
                    out[d.name()] = {'bool': z3.is_true(v)}
                else:
                    out[d.name()] = {'term': str(v)}
            else:
                out[d.name()] = {'func': str(m[d])[:2000]}
        except Exception as e:  # model printing must never kill a verdict
            out[d.name()] = {'error': repr(e)}
    return out


def _run_z3_api(smt, want_model, timeout_ms=None):
    ctx = z3.Context()
    s = z3.Solver(ctx=ctx)
    s.set('timeout', timeout_ms or Z3_TIMEOUT_MS)
    s.from_string(smt)
    t0 = time.time()
    r = s.check()
    dt = time.time() - t0
    if r == z3.unsat:
        return 'unsat', None, dt
    if r == z3.sat:
        model = None
        # a 'sat' must be backed by a model that really satisfies every
        # assertion (z3's sequence solver occasionally returns bogus models
        # for equal strings built differently): otherwise it is 'unknown'
        try:
            mdl = s.model()
            for a in s.assertions():
                v = mdl.eval(a, model_completion=True)
                if not z3.is_true(v):
                    return 'unknown', {'note': 'sat model not confirmed'}, dt
        except Exception:
            return 'unknown', {'note': 'sat model evaluation failed'}, dt
        if want_model:
            try:
                model = _model_to_dict(s.model())
            except Exception as e:
                model = {'error': repr(e)}
        return 'sat', model, dt
    return 'unknown', None, dt


_CVC5_FIXES = [
    (re.compile(r'\(declare-fun ([^ ]+) \(\) \(Seq String\)\)'), None),
]


def _run_cli(cmd, smt, timeout_s, want_model):
    text = smt
    if want_model:
        text = text.replace('(check-sat)', '(check-sat)\n(get-model)')
    with tempfile.NamedTemporaryFile('w', suffix='.smt2', delete=False,
                                     dir=os.environ.get('PYVC_TMP', None)) as f:
        f.write(text)
        name = f.name
    t0 = time.time()
    try:
        p = subprocess.run(cmd + [name], capture_output=True, text=True,
                           timeout=timeout_s + 5)
        out = p.stdout
    except subprocess.TimeoutExpired:
        out = 'timeout'
    finally:
        os.unlink(name)
    dt = time.time() - t0
    first = out.strip().split('\n')[0].strip() if out.strip() else ''
    if first == 'unsat':
        return 'unsat', None, dt
    if first == 'sat':
        return 'sat', {'raw': out[:20000]}, dt
    return 'unknown', {'raw': out[:500]}, dt


def _cvc5_dialect(smt):
    """z3 prints single characters as (seq.unit (_ Char N)) / (_ Char N);
    cvc5 1.0 wants string literals / (_ char #xH)"""
    def unit(m):
        n = int(m.group(1))
        if n == 34:
            return '"\"\""'
        if 32 <= n < 127 and n != 92:
            return '"%s"' % chr(n)
        return '"\\u{%x}"' % n
    smt = re.sub(r'\(seq\.unit \(_ Char (\d+)\)\)', unit, smt)
    smt = re.sub(r'\(_ Char (\d+)\)', lambda m: '(_ char #x%x)' % int(m.group(1)), smt)
    return smt


def _cvc5(smt, want_model, timeout_s=None):
    timeout_s = timeout_s or CVC5_TIMEOUT_S
    text = '(set-logic ALL)\n' + _cvc5_dialect(smt)
    cmd = ['/usr/bin/cvc5', '--strings-exp', '--tlimit=%d' % (
        timeout_s * 1000)]
    if want_model:
        cmd.append('--produce-models')
    return _run_cli(cmd, text, timeout_s, want_model)


def _z3new(smt, want_model):
    cmd = ['z3-new', '-T:%d' % Z3NEW_TIMEOUT_S]
    return _run_cli(cmd, smt, Z3NEW_TIMEOUT_S, want_model)


def solve_one(job):
    """job = (idx, smt2 text, want_model) -> (idx, verdict, model, backend,
    seconds, log)"""
    idx, smt, want_model = job[:3]
    quick_only = len(job) > 3 and job[3]
    patient = len(job) > 4 and job[4]
    log = []
    total = 0.0
    if patient:
        for name, fn in (('cvc5', lambda: _cvc5(smt, want_model, PATIENT_CVC5_S)),
                         ('z3', lambda: _run_z3_api(smt, want_model, PATIENT_Z3_MS))):
            try:
                v, m, dt = fn()
            except Exception as e:
                v, m, dt = 'unknown', None, 0.0
                log.append('%s error: %r' % (name, e))
            total += dt
            log.append('%s:%s:%.2fs' % (name, v, dt))
            if v != 'unknown':
                return idx, v, m, name, total, log
        return idx, 'unknown', None, 'none', total, log
    try:
        v, m, dt = _run_z3_api(smt, want_model, Z3_QUICK_MS)
    except Exception as e:
        v, m, dt = 'unknown', None, 0.0
        log.append('z3 api error: %r' % (e,))
    total += dt
    log.append('z3:%s:%.2fs' % (v, dt))
    if v != 'unknown':
        return idx, v, m, 'z3', total, log
    if quick_only:
        return idx, 'unknown', None, 'none', total, log
    if os.environ.get('PYVC_NO_FALLBACK') != '1':
        try:
            v, m, dt = _cvc5(smt, want_model)
        except Exception as e:
            v, m, dt = 'unknown', None, 0.0
            log.append('cvc5 error: %r' % (e,))
        total += dt
        log.append('cvc5:%s:%.2fs' % (v, dt))
        if v != 'unknown':
            return idx, v, m, 'cvc5', total, log
        try:
            v, m, dt = _run_z3_api(smt, want_model, Z3_TIMEOUT_MS)
        except Exception as e:
            v, m, dt = 'unknown', None, 0.0
            log.append('z3 api error: %r' % (e,))
        total += dt
        log.append('z3-long:%s:%.2fs' % (v, dt))
        if v != 'unknown':
            return idx, v, m, 'z3', total, log
        try:
            v, m, dt = _z3new(smt, want_model)
        except Exception as e:
            v, m, dt = 'unknown', None, 0.0
            log.append('z3-new error: %r' % (e,))
        total += dt
        log.append('z3-new:%s:%.2fs' % (v, dt))
        if v == 'sat':
            # the CLI model cannot be validated here and z3's sequence solver
            # is known to return bogus models: never a refutation by itself
            log.append('z3-new sat ignored (unvalidated)')
            v = 'unknown'
        if v != 'unknown':
            return idx, v, m, 'z3-new', total, log
    return idx, 'unknown', None, 'none', total, log


def solve_all(jobs, nproc=None):
    """jobs: list of (idx, smt, want_model)"""
    if not jobs:
        return []
    nproc = nproc or NPROC
    if len(jobs) < 4 or nproc <= 1:
        return [solve_one(j) for j in jobs]
    ctx = multiprocessing.get_context('fork')
    with ctx.Pool(min(nproc, len(jobs))) as pool:
        return pool.map(solve_one, jobs, chunksize=max(1, len(jobs) // (nproc * 8)))
