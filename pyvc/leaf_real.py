"""Run under /venv/bin/python with PYTHONPATH=<repo>: bounded differential
checks of leaf functions of the tree under test against independent oracles
written from the property texts.  Used as replay builders (a refuted leaf
obligation gets a native witness when one of these generated inputs shows
it) and in the thorough tier.  Never counted as proof.

usage: leaf_real.py <which>[,<which>...]   -> one JSON document on stdout
"""
import datetime
import fnmatch
import itertools
import json
import os
import posixpath
import shutil
import stat
import sys
import tempfile
from urllib.parse import unquote


def compositions(tokens, max_len):
    for n in range(1, max_len + 1):
        for t in itertools.product(tokens, repeat=n):
            yield ''.join(t)


# ---------------------------------------------------------------------------
def leaf_path_of_backup_copy():
    from trashcli.lib.path_of_backup_copy import path_of_backup_copy
    problems = []
    n = 0
    names = set(compositions(['.trashinfo', 'a', '.', 'b.c', '_1', ' '], 3))
    for td in ('/t', '/t/Trash', 'rel/T', '/t/x.trashinfo', '/'):
        for nm in names:
            if not nm.endswith('.trashinfo'):
                continue
            stem = nm[:-len('.trashinfo')]
            if stem in ('', '.', '..'):
                continue
            n += 1
            p = posixpath.join(td, 'info', nm)
            want = posixpath.join(td, 'files', stem)
            try:
                got = path_of_backup_copy(p)
            except Exception as e:
                got = 'raised %r' % (e,)
            if got != want:
                problems.append('path_of_backup_copy(%r) = %r, the payload of '
                                'that info file is %r' % (p, got, want))
    return n, problems


def leaf_filter_matches():
    from trashcli.rm.filter import Filter
    problems = []
    n = 0
    pats = ['foo', 'FOO', 'f*', '*.o', '?oo', '[fF]oo', '/abs/dir/foo', '/abs/*',
            '*', 'dir/foo', 'fo', '[!f]oo', 'a*b', '*[*', '/', 'foo*', '*.bak*',
            'f', '/abs/dir/f*', '*o', 'foo.o', '/abs/dir/foo.o']
    names = ['/abs/dir/foo', '/abs/dir/Foo', '/abs/dir/FOO', '/abs/other/foo',
             '/abs/dir/foo.o', '/abs/dir/boo', '/abs/dir/a[b', '/abs/dir/fo',
             '/abs/dir/foobar', '/abs/dir/a*b', '/abs/dir/axb', '/x.bak/y',
             '/abs/dir/f', '/foo', 'rel/foo', '/abs/dir.o/f', '/abs/dir/[fF]oo',
             '/abs/dir/[!f]oo', '/abs/dir/?oo', '/abs/dir/f*', '/abs/dir/*[*']
    for pat in pats:
        f = Filter(pat)
        for nm in names:
            n += 1
            subject = nm if pat[0] == '/' else posixpath.basename(nm)
            want = fnmatch.fnmatchcase(subject, pat)
            try:
                got = f.matches(nm)
            except Exception as e:
                got = 'raised %r' % (e,)
            if got != want:
                problems.append('Filter(%r).matches(%r) = %r, expected %r' % (
                    pat, nm, got, want))
    return n, problems


def _mk(kind, base):
    """create an entry of the kind at base/e plus an outside target; returns
    (path, target or None)"""
    p = os.path.join(base, 'e')
    out = os.path.join(base, 'outside')
    os.makedirs(os.path.join(out, 'sub'))
    with open(os.path.join(out, 'sub', 'f'), 'w') as f:
        f.write('precious')
    with open(os.path.join(out, 'g'), 'w') as f:
        f.write('precious2')
    if kind == 'file':
        open(p, 'w').write('x')
    elif kind == 'dir':
        os.makedirs(os.path.join(p, 'a', 'b'))
        open(os.path.join(p, 'a', 'f'), 'w').write('x')
        os.symlink(out, os.path.join(p, 'a', 'b', 'link-out'))
    elif kind == 'emptydir':
        os.mkdir(p)
    elif kind == 'link-file':
        os.symlink(os.path.join(out, 'g'), p)
    elif kind == 'link-dir':
        os.symlink(out, p)
    elif kind == 'dangling':
        os.symlink('/nonexistent/zz', p)
    elif kind == 'rodir':
        os.makedirs(os.path.join(p, 'a'))
        open(os.path.join(p, 'a', 'f'), 'w').write('x')
        os.chmod(os.path.join(p, 'a'), 0o500)
    return p, out


def _tree(p):
    out = {}
    for root, dirs, files in os.walk(p):
        for n in dirs + files:
            q = os.path.join(root, n)
            st = os.lstat(q)
            out[os.path.relpath(q, p)] = (stat.S_IFMT(st.st_mode), stat.S_IMODE(st.st_mode),
                                          os.readlink(q) if stat.S_ISLNK(st.st_mode)
                                          else (open(q).read() if stat.S_ISREG(st.st_mode) else None))
    return out


def leaf_removers():
    import trashcli.fs as tfs
    problems = []
    n = 0
    kinds = ['file', 'dir', 'emptydir', 'link-file', 'link-dir', 'dangling',
             'rodir', 'absent']
    for fname, call, total_when_absent in (
            ('RealRemoveFile2.remove_file2',
             lambda p: tfs.FsMethods().remove_file2(p), False),
            ('RealRemoveFileIfExists.remove_file_if_exists',
             lambda p: tfs.FsMethods().remove_file_if_exists(p), True),
            ('RealRemoveFile.remove_file',
             lambda p: tfs.FsMethods().remove_file(p), True)):
        for kind in kinds:
            base = tempfile.mkdtemp(prefix='pyvc-leaf-')
            try:
                p, out = _mk(kind, base)
                before = _tree(out)
                n += 1
                err = None
                try:
                    call(p)
                except Exception as e:
                    err = e
                if kind == 'absent':
                    if total_when_absent and err is not None:
                        problems.append('%s(absent path) raised %r' % (fname, err))
                else:
                    if err is not None:
                        problems.append('%s(%s) raised %r' % (fname, kind, err))
                    if os.path.lexists(p):
                        problems.append('%s(%s): the entry is still there' % (fname, kind))
                if _tree(out) != before:
                    problems.append('%s(%s): something OUTSIDE the named entry '
                                    'changed' % (fname, kind))
            finally:
                for root, dirs, files in os.walk(base):
                    for d in dirs:
                        try:
                            os.chmod(os.path.join(root, d), 0o700)
                        except OSError:
                            pass
                shutil.rmtree(base, ignore_errors=True)
    return n, problems


LINES = ['[Trash Info]', 'Path=a%20b', 'Path=/x/y', 'Path=', 'Path =z',
         'DeletionDate=2001-02-03T04:05:06', 'DeletionDate=bad',
         'DeletionDate=2020-01-01T00:00:00+0100', 'DeletionDate=', 'X=1', '',
         ' Path=lead', 'DeletionDate=1999-12-31T23:59:59']


def _first(lines, prefix):
    for l in lines:
        if l.startswith(prefix):
            return l[len(prefix):]
    return None


def leaf_parsers():
    from trashcli.parse_trashinfo.parse_path import parse_path
    from trashcli.parse_trashinfo.parse_deletion_date import parse_deletion_date
    from trashcli.parse_trashinfo.maybe_parse_deletion_date import \
        maybe_parse_deletion_date
    from trashcli.parse_trashinfo.parser_error import ParseError
    try:
        from trashcli.parse_trashinfo.parse_original_location import \
            parse_original_location
    except Exception:
        parse_original_location = None
    problems = []
    n = 0
    for k in (1, 2, 3):
        for combo in itertools.product(LINES, repeat=k):
            for tail in ('\n', ''):
                text = '\n'.join(combo) + tail
                lines = text.split('\n')
                n += 1
                wp = _first(lines, 'Path=')
                try:
                    gp = parse_path(text)
                except ParseError:
                    gp = None
                except Exception as e:
                    gp = 'raised %r' % (e,)
                if gp != (unquote(wp) if wp is not None else None):
                    problems.append('parse_path(%r) = %r, first Path line gives %r' % (
                        text, gp, unquote(wp) if wp is not None else None))
                if parse_original_location is not None:
                    try:
                        go = parse_original_location(text, '/vol')
                    except ParseError:
                        go = None
                    except Exception as e:
                        go = 'raised %r' % (e,)
                    wo = os.path.join('/vol', unquote(wp)) if wp is not None else None
                    if go != wo:
                        problems.append('parse_original_location(%r) = %r, expected %r' % (
                            text, go, wo))
                wd = _first(lines, 'DeletionDate=')
                want = None
                if wd is not None:
                    try:
                        want = datetime.datetime.strptime(wd, '%Y-%m-%dT%H:%M:%S')
                    except ValueError:
                        want = None
                try:
                    gd = parse_deletion_date(text)
                except Exception as e:
                    gd = 'raised %r' % (e,)
                if gd != want:
                    problems.append('parse_deletion_date(%r) = %r, the first '
                                    'DeletionDate line gives %r' % (text, gd, want))
                try:
                    gm = maybe_parse_deletion_date(text)
                except Exception as e:
                    gm = 'raised %r' % (e,)
                wm = want if want is not None else '????-??-?? ??:??:??'
                if gm != wm:
                    problems.append('maybe_parse_deletion_date(%r) = %r, expected %r' % (
                        text, gm, wm))
            if len(problems) > 40:
                return n, problems
    return n, problems


def leaf_is_input_interactive():
    import trashcli.empty.is_input_interactive as m
    problems = []
    n = 0
    real = os.isatty
    try:
        for a, b, c in itertools.product((False, True), repeat=3):
            os.isatty = lambda fd, a=a, b=b, c=c: {0: a, 1: b, 2: c}.get(fd, False)
            n += 1
            got = m.is_input_interactive()
            if got != a:
                problems.append('is_input_interactive() = %r with isatty(0,1,2) = %r: '
                                'the default must follow standard INPUT only' % (
                                    got, (a, b, c)))
    finally:
        os.isatty = real
    return n, problems


def leaf_replies():
    from trashcli.empty.parse_reply import parse_reply
    from trashcli.put.user import parse_user_reply, user_replied_yes
    problems = []
    n = 0
    for r in ['', 'y', 'Y', 'yes', 'Yes', 'n', 'no', ' y', '\ty', 'ny', 'yn',
              '1', 'j', 'ｙ', 'ý', 'Ｙ', 'y ', ' ', 'N', 'YES', 'oui']:
        n += 1
        want = r[:1] in ('y', 'Y')
        if parse_reply(r) != want:
            problems.append('trash-empty parse_reply(%r) = %r, consent is a reply '
                            'that begins with y or Y' % (r, parse_reply(r)))
        if (parse_user_reply(r) == user_replied_yes) != want:
            problems.append('trash-put parse_user_reply(%r) accepts=%r, expected %r' % (
                r, parse_user_reply(r) == user_replied_yes, want))
    return n, problems


def leaf_read_input():
    import builtins
    import trashcli.lib.my_input as mi
    problems = []
    n = 0
    real = getattr(mi, '_my_input', None)
    try:
        for line in ['y', ' y', 'y ', '\tyes', '', '  ', 'n', '0-1 ', ' 1,2']:
            seen = []

            def fake(prompt='', line=line, seen=seen):
                seen.append(prompt)
                return line
            mi._my_input = fake
            builtins_input = builtins.input
            builtins.input = fake
            try:
                n += 1
                got = mi.RealInput().read_input('PROMPT> ')
            finally:
                builtins.input = builtins_input
            if got != line:
                problems.append('RealInput.read_input returned %r for the line %r' % (
                    got, line))
            if seen != ['PROMPT> ']:
                problems.append('RealInput.read_input showed the prompts %r' % (seen,))
    finally:
        if real is not None:
            mi._my_input = real
    return n, problems


def leaf_atomic_write():
    import trashcli.fs as tfs
    problems = []
    n = 0
    base = tempfile.mkdtemp(prefix='pyvc-leaf-')
    try:
        # 1. a name that already exists is refused and left untouched
        p = os.path.join(base, 'taken.trashinfo')
        open(p, 'w').write('theirs')
        n += 1
        try:
            tfs.RealAtomicWrite().atomic_write(p, b'mine')
            problems.append('atomic_write on an existing name did not fail')
        except OSError:
            pass
        if not os.path.exists(p) or open(p).read() != 'theirs':
            problems.append('atomic_write on an existing name (exclusive create '
                            'fails) removed or changed the file of the other '
                            'process: %r' % (os.path.exists(p) and open(p).read(),))
        # 2. a dangling symlink at the name: refused, link untouched
        q = os.path.join(base, 'dl.trashinfo')
        os.symlink('/nonexistent/zz', q)
        n += 1
        try:
            tfs.RealAtomicWrite().atomic_write(q, b'mine')
            problems.append('atomic_write through a dangling link did not fail')
        except OSError:
            pass
        if not os.path.islink(q):
            problems.append('atomic_write removed a pre-existing (dangling) link')
        # 3. write / close failing: nothing is left behind
        for op in ('write', 'close'):
            r = os.path.join(base, 'new-%s.trashinfo' % op)
            real = getattr(os, op)
            state = {'armed': True}

            def failing(fd, *a, real=real, state=state, op=op):
                if state['armed'] and fd > 2:
                    state['armed'] = False
                    if op == 'close':
                        real(fd)
                    raise OSError(5, 'injected EIO')
                return real(fd, *a)
            setattr(os, op, failing)
            n += 1
            try:
                try:
                    tfs.RealAtomicWrite().atomic_write(r, b'content')
                    problems.append('atomic_write did not report the failing %s' % op)
                except OSError:
                    pass
            finally:
                setattr(os, op, real)
            if os.path.lexists(r):
                problems.append('atomic_write left %s behind after a failing %s()' % (
                    os.path.basename(r), op))
        # 4. success: exactly the content, mode 0600
        s = os.path.join(base, 'ok.trashinfo')
        n += 1
        tfs.RealAtomicWrite().atomic_write(s, b'content')
        if open(s, 'rb').read() != b'content':
            problems.append('atomic_write wrote %r' % open(s, 'rb').read())
    finally:
        shutil.rmtree(base, ignore_errors=True)
    return n, problems


def leaf_older_than():
    from trashcli.empty.older_than import older_than
    problems = []
    n = 0
    now = datetime.datetime(2020, 1, 10, 12, 0, 0)
    for days in (0, 1, 2, 9, 3650):
        for delta_s in (-1, 0, 1, 86400, -86400):
            d = now - datetime.timedelta(days=days) + datetime.timedelta(seconds=delta_s)
            n += 1
            want = d < now - datetime.timedelta(days=days)
            if older_than(days, now, d) != want:
                problems.append('older_than(%d, now, now-%dd%+ds) = %r' % (
                    days, days, delta_s, older_than(days, now, d)))
    return n, problems


def leaf_exit_status():
    from trashcli.put.core.trash_all_result import TrashAllResult
    from trashcli.put.reporting.trash_put_reporter import TrashPutReporter
    problems = []
    n = 0
    for failed in ([], [''], ['a'], ['', ''], ['0'], ['a', '']):
        n += 1
        r = TrashAllResult(failed)
        code = TrashPutReporter.exit_code(r)
        if (code == 0) != (len(failed) == 0):
            problems.append('exit code %r for the failed arguments %r' % (code, failed))
    return n, problems


def leaf_shrink_user():
    from trashcli.put.core.candidate import Candidate
    problems = []
    n = 0
    import inspect
    fields = Candidate._fields
    for home in ['/home/u', '/x/home (old', '/x/[scratch', '/x/a+b', '/x/a.b',
                 '/x/a*', '/x/a\\b', '', '/', '/x/h)']:
        for td in [home + '/.local/share/Trash', '/vol/.Trash-0', home]:
            n += 1
            vals = dict((f, None) for f in fields)
            vals['trash_dir_path'] = td
            c = Candidate(**vals)
            try:
                s = c.shrink_user({'HOME': home})
            except Exception as e:
                problems.append('shrink_user with HOME=%r raised %r' % (home, e))
                continue
            nh = posixpath.normpath(home) if home else ''
            ntd = posixpath.normpath(td)
            if nh and ntd.startswith(nh + '/') and nh != '/':
                want = '~/' + ntd[len(nh) + 1:]
                if s != want:
                    problems.append('shrink_user(%r, HOME=%r) = %r, expected %r' % (
                        td, home, s, want))
    return n, problems


def leaf_sort():
    from trashcli.restore.sort_method import sort_files
    from trashcli.restore.args import Sort
    from trashcli.restore.trashed_file import TrashedFile
    problems = []
    n = 0
    d1 = datetime.datetime(2001, 1, 1)
    d2 = datetime.datetime(2002, 1, 1)
    entries = [('/a', d1), ('/a', None), ('/a', d2), ('/b', None), ('/b', d1),
               ('/a', d1), ('/', None)]
    for k in (2, 3):
        for combo in itertools.permutations(range(len(entries)), k):
            files = [TrashedFile(entries[i][0], entries[i][1], '/i/%d' % j, '/f/%d' % j)
                     for j, i in enumerate(combo)]
            for mode in Sort:
                n += 1
                try:
                    out = list(sort_files(mode, list(files)))
                except Exception as e:
                    problems.append('sort %s of %r raised %r' % (
                        mode, [(f[0], f[1]) for f in files], e))
                    continue
                if sorted(map(id, out)) != sorted(map(id, files)):
                    problems.append('sort %s is not a permutation' % (mode,))
            if len(problems) > 20:
                return n, problems
    return n, problems


def leaf_parse_indexes():
    from trashcli.restore.restore_asking_the_user import parse_indexes, InvalidEntry
    problems = []
    n = 0
    parts = ['0', '1', '2', '3', '0-1', '1-2', '0-2', '2-0', '0-7-1', '0--1', '-1',
             '1-', ' 1', '1 ', '1 2', 'x', '', '0-x-1', '00', '+1']

    def denote(part, size):
        if '-' in part:
            ab = part.split('-')
            if len(ab) != 2 or ab[0] == '' or ab[1] == '':
                return None
            try:
                a, b = int(ab[0]), int(ab[1])
            except ValueError:
                return None
            r = list(range(a, b + 1))
        else:
            try:
                r = [int(part)]
            except ValueError:
                return None
        if any(i < 0 or i >= size for i in r):
            return None
        return r
    size = 3
    for k in (1, 2):
        for combo in itertools.product(parts, repeat=k):
            reply = ','.join(combo)
            n += 1
            want = []
            for p in combo:
                d = denote(p, size)
                if d is None:
                    want = None
                    break
                want += d
            try:
                got = list(parse_indexes(reply, size).all_indexes())
            except (InvalidEntry, ValueError):
                got = None
            except Exception as e:
                got = 'raised %r' % (e,)
            if got != want:
                problems.append('parse_indexes(%r, %d) denotes %r, expected %r' % (
                    reply, size, got, want))
            if len(problems) > 20:
                return n, problems
    return n, problems


def leaf_scope():
    from trashcli.restore.trashed_file import TrashedFile
    problems = []
    n = 0
    locs = ['/a/foo', '/a/foo/x', '/a/foobar/y', '/a/foobar', '/a/Miles [1959]/x',
            '/a/M/x', '/a/1/x', '/a/9/x', '/', '/a', '/a/foo/x/y', '/a/fo', '/a/*/x',
            '/a/?/x']
    paths = ['/', '/a', '/a/foo', '/a/foobar', '/a/Miles [1959]', '/a/fo', '/a/foo/x',
             '/a/*', '/a/?', '/a/[1-5]', '/b']
    for loc in locs:
        for p in paths:
            n += 1
            want = p == '/' or loc == p or loc.startswith(p + '/')
            tf = TrashedFile(loc, None, '/i/x.trashinfo', '/f/x')
            try:
                got = tf.original_location_matches_path(p)
            except Exception as e:
                got = 'raised %r' % (e,)
            if got != want:
                problems.append('entry %r %s beneath %r: %r' % (
                    loc, 'is' if want else 'is not', p, got))
    return n, problems


LEAVES = {
    'scope': leaf_scope,
    'path_of_backup_copy': leaf_path_of_backup_copy,
    'filter_matches': leaf_filter_matches,
    'removers': leaf_removers,
    'parsers': leaf_parsers,
    'is_input_interactive': leaf_is_input_interactive,
    'replies': leaf_replies,
    'read_input': leaf_read_input,
    'atomic_write': leaf_atomic_write,
    'older_than': leaf_older_than,
    'exit_status': leaf_exit_status,
    'shrink_user': leaf_shrink_user,
    'sort': leaf_sort,
    'parse_indexes': leaf_parse_indexes,
}


def main():
    which = sys.argv[1].split(',') if len(sys.argv) > 1 and sys.argv[1] != 'all' \
        else sorted(LEAVES)
    out = {}
    for w in which:
        try:
            n, problems = LEAVES[w]()
            out[w] = {'cases': n, 'problems': problems[:8]}
        except Exception as e:
            import traceback
            out[w] = {'cases': 0, 'problems': [],
                      'error': traceback.format_exc()[-1500:]}
    print('LEAF-RESULT ' + json.dumps(out))


main()
