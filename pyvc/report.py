"""Turning discharged sessions into verdicts, evidence and replay files."""
import hashlib
import json
import os
import re
import time

import z3

VERIF = os.path.dirname(os.path.dirname(os.path.abspath(__file__)))
KF_FILE = os.path.join(VERIF, 'known_findings.json')

EXIT_OK, EXIT_VIOLATION, EXIT_UNDECIDED, EXIT_CRASH = 0, 1, 2, 3

BASE_ASSUMPTIONS = [
    'python semantics as encoded by pyvc: ints are mathematical (exact for '
    'Python), str is a z3 String (code points <= 0x2FFFF), exceptions carry a '
    'concrete class; no monkeypatching / __getattr__ tricks in the tree',
    'library models (DESIGN.md section 3) are trusted; they are validated only '
    'by the bounded differential checks of the thorough tier',
    'solver soundness: z3 4.x/5.x, cvc5 1.0.3',
]


def slug(s):
    return re.sub(r'[^A-Za-z0-9_.-]+', '_', s)[:150]


def load_known_findings(prop):
    if not os.path.exists(KF_FILE):
        return []
    with open(KF_FILE) as f:
        data = json.load(f)
    return [e for e in data.get('findings', []) if e['property'] == prop]


def finalize(session, prop, tier, seed, expected, replayers, kf_classes,
             level_note='', bounded=None, extra_assumptions=None,
             checker_cmd=None, native=None, fallback=None):
    """compute the verdict, write evidence, print VIOLATION/KNOWN-FINDING
    lines; returns the exit code."""
    S = session
    results = S.results
    lines = []
    exit_code = EXIT_OK
    violations = 0
    os.makedirs(os.environ.get('PYVC_EVIDENCE_DIR') or os.path.join(VERIF, 'replays'), exist_ok=True)
    evdir = os.environ.get('PYVC_EVIDENCE_DIR') or os.path.join(VERIF, 'evidence')
    os.makedirs(evdir, exist_ok=True)

    total = 0
    discharged = 0
    by_backend = {}
    solver_s = 0.0
    covers = 0
    canaries_ok = 0
    canaries = 0
    undecided = []
    refuted = []
    kf_matched = []
    for name, r in sorted(results.items()):
        solver_s += r.solver_s
        if r.kind == 'aux':
            continue
        if r.kind == 'cover':
            covers += r.discharged
            if r.failed and not r.discharged and not r.unknown:
                # no reachable instance at all: vacuity -> checker failure
                # (single unreachable instances are infeasible paths that the
                # exploration could not prune: harmless)
                undecided.append((name, 'vacuous: all %d instance(s) '
                                        'unreachable' % len(r.failed)))
            if r.unknown:
                pass  # unknown reachability is not counted either way
            continue
        if r.kind == 'canary':
            canaries += 1
            if r.failed:
                canaries_ok += 1
            else:
                undecided.append((name, 'canary was not refuted: the '
                                        'pipeline cannot fail here'))
            continue
        total += r.instances
        discharged += r.discharged
        for b, n in r.by_backend.items():
            by_backend[b] = by_backend.get(b, 0) + n
        if r.failed:
            refuted.append(r)
        if r.unknown:
            undecided.append((name, 'solver unknown on %d instance(s): %s' % (
                len(r.unknown), r.unknown[0][1])))

    # expected obligations must exist (a harness generating nothing fails)
    missing = []
    for e in expected:
        if not any(n == e or n.startswith(e) for n in results):
            missing.append(e)

    kfs = load_known_findings(prop)
    open_kfs = [k for k in kfs if k.get('status') == 'open']

    replay_paths = []
    for r in refuted:
        # known finding?  re-check with the witness class excluded
        matched = None
        for k in open_kfs:
            if not r.name.startswith(k['obligation']):
                continue
            cls = kf_classes.get(k['witness_class'])
            if cls is None:
                continue
            all_inside = True
            for (o, m, log, smt) in r.failed:
                inside = _only_inside_class(o, cls)
                if inside is None:
                    undecided.append((r.name, 'known-finding class check '
                                              'undecided for %s' % k['id']))
                    all_inside = None
                    break
                if not inside:
                    all_inside = False
                    break
            if all_inside is None:
                matched = 'undecided'
                break
            if all_inside:
                matched = k
                break
        if matched == 'undecided':
            continue
        if matched is not None:
            kf_matched.append((r.name, matched))
            # the obligation holds outside the finding: count as discharged
            discharged += len(r.failed)
            continue
        violations += 1
        o, m, log, smt = r.failed[0]
        rp = write_replay(S, prop, r, replayers)
        replay_paths.append(rp)
        confirmed = rp[1]
        line = 'VIOLATION property=%s replay=%s' % (prop, rp[0])
        if not confirmed:
            line += ' no-failing-input-found'
        lines.append(line)
        exit_code = EXIT_VIOLATION

    # thorough tier: bounded native checks
    model_problems = []
    for nb in (native or []):
        if nb.get('kind') == 'battery' and (nb.get('result') or {}).get('confirmed'):
            violations += 1
            path = os.path.join(os.environ.get('PYVC_EVIDENCE_DIR') or
                                os.path.join(VERIF, 'replays'),
                                '%s-native-battery.json' % prop)
            with open(path, 'w') as f:
                json.dump({'property': prop, 'obligation': 'native battery',
                           'replay': nb['result']}, f, indent=1, default=str)
            lines.append('VIOLATION property=%s replay=%s' % (prop, path))
            exit_code = EXIT_VIOLATION
        if nb.get('kind') == 'model-validation' and nb.get('problems'):
            model_problems.append(nb['what'])
    for w in model_problems:
        undecided.append(('library-model-validation', w))

    printed = set()
    for name, k in kf_matched:
        if k['id'] in printed:
            continue
        printed.add(k['id'])
        lines.append('KNOWN-FINDING: property=%s %s [%s; obligation %s]' % (
            prop, k['text'], k['id'], k['obligation']))

    if exit_code == EXIT_OK and (S.errors or undecided) and fallback is not None:
        # the code left the supported subset (or a contract is out of date):
        # the deductive part is undecided.  The property's native battery is
        # consulted; a reproduced violation is reported with its witness.
        try:
            fb = fallback(S, None, None)
        except Exception as e:
            fb = {'confirmed': False, 'error': repr(e)}
        if fb.get('confirmed'):
            violations += 1
            path = os.path.join(os.environ.get('PYVC_EVIDENCE_DIR') or
                                os.path.join(VERIF, 'replays'),
                                '%s-undecided-native-witness.json' % prop)
            with open(path, 'w') as f:
                json.dump({'property': prop,
                           'obligation': 'deductive part undecided: %r' % (
                               (S.errors or undecided)[:3],),
                           'replay': fb}, f, indent=1, default=str)
            print('VIOLATION property=%s replay=%s' % (prop, path))
            exit_code = EXIT_VIOLATION
    if exit_code == EXIT_OK:
        if S.errors or undecided or missing:
            exit_code = EXIT_UNDECIDED
        if missing and not S.errors:
            exit_code = EXIT_CRASH

    wall = time.time() - S.t0
    assumptions = list(BASE_ASSUMPTIONS) + sorted(S.used_axioms) + \
        list(extra_assumptions or [])
    samples = []
    for name, r in sorted(results.items()):
        if r.kind in ('cover', 'canary', 'aux'):
            continue
        samples.append({'obligation': name, 'kind': r.kind,
                        'instances': r.instances, 'status': r.status,
                        'backends': r.by_backend,
                        'smt2_head': (r.sample or '')[:600]})
    ev = {
        'property_id': prop,
        'tier': tier,
        'seed': seed,
        'level': 'proof',
        'coverage': {
            'obligations': total,
            'discharged': discharged,
            'checker_cmd': checker_cmd or
            'python3-vt -m pyvc check %s --tier %s' % (prop, tier),
            'trusted_base': sorted(S.used_axioms) + [
                'pyvc symbolic interpreter (fidelity to CPython is trusted; guarded '
                'by native batteries, leaf oracles and model validation in the '
                'thorough tier)', 'z3/cvc5'],
            'distinct_obligation_names': len(samples),
            # contracted / entry functions, plus every repo function whose
            # body the interpreter actually executed in some VC (sha256 of the
            # source text that was verified)
            'functions_under_contract': [
                {'function': k, 'sha256': v}
                for k, v in sorted(dict(getattr(S.interp, 'executed', {}),
                                        **S.functions).items())],
            'by_backend': by_backend,
            'solver_s': round(solver_s, 3),
            'paths_explored': S.paths,
            'feasibility_checks': S.stats.feas_checks,
            'covers_sat': covers,
            'canaries_refuted': '%d/%d' % (canaries_ok, canaries),
            'known_findings_matched': [
                {'obligation': n, 'finding': k['id']} for n, k in kf_matched],
            'undecided': [{'obligation': n, 'why': w} for n, w in undecided],
            'errors': [{'where': a, 'kind': b, 'message': c}
                       for a, b, c in S.errors],
            'missing_expected': missing,
            'bounded_checks': bounded or [],
            'samples': samples[:40],
            'notes': S.notes,
            'explanation': level_note,
        },
        'assumptions': assumptions,
        'wall_s': round(wall, 2),
        'violations': violations,
    }
    with open(os.path.join(evdir, '%s.json' % prop), 'w') as f:
        json.dump(ev, f, indent=1, default=str)

    for l in lines:
        print(l)
    for a, b, c in S.errors:
        print('UNDECIDED %s: %s: %s' % (a, b, c))
    for n, w in undecided:
        print('UNDECIDED %s: %s' % (n, w))
    for mname in missing:
        print('CHECKER-ERROR missing expected obligation %s' % mname)
    print('%s %s: %d/%d obligations discharged (%s), %d paths, %.1fs, '
          'exit %d' % (prop, tier, discharged, total,
                       ', '.join('%s=%d' % kv for kv in sorted(
                           by_backend.items())), S.paths, wall, exit_code))
    return exit_code


def _only_inside_class(o, cls):
    """is the refutation confined to the witness class?  i.e. pc and not goal
    and not class is unsat.  Returns True / False / None (undecided)."""
    from . import solver as solver_mod
    terms = o.info.get('terms') or {}
    try:
        f = cls(terms)
    except KeyError:
        return False
    smt = solver_mod.to_smt2(list(o.pc) + [z3.Not(f)], o.goal, 'valid')
    _i, v, _m, _b, _t, _log = solver_mod.solve_one((0, smt, False))
    if v == 'unsat':
        return True
    if v == 'sat':
        return False
    return None


def write_replay(S, prop, r, replayers):
    o, m, log, smt = r.failed[0]
    path = os.path.join(os.environ.get('PYVC_EVIDENCE_DIR') or os.path.join(VERIF, 'replays'), '%s-%s.json' % (prop, slug(r.name)))
    doc = {
        'property': prop,
        'obligation': r.name,
        'kind': r.kind,
        'failed_instances': len(r.failed),
        'solver_log': log,
        'model': m,
        'path_trace': o.info.get('trace'),
        'info': {k: v for k, v in o.info.items()
                 if k not in ('trace', 'terms', 'replay')},
        'smt2': smt,
    }
    confirmed = False
    rep = None
    for prefix, fn in replayers.items():
        if r.name.startswith(prefix):
            rep = fn
            break
    if rep is None and o.info.get('replay') is not None:
        rep = o.info['replay']
    if rep is not None:
        try:
            outcome = rep(S, r, o)
            doc['replay'] = outcome
            confirmed = bool(outcome.get('confirmed'))
        except Exception as e:
            import traceback
            doc['replay'] = {'confirmed': False,
                             'error': traceback.format_exc()}
    else:
        doc['replay'] = {'confirmed': False,
                         'note': 'no replay builder for this obligation'}
    if not confirmed:
        # second chance: the bounded oracle of the leaf function concerned
        try:
            from contracts import leafcheck
            lr = leafcheck.leaf_replay(S, r.name)
            if lr is not None:
                doc['replay_leaf_oracle'] = lr
                confirmed = bool(lr.get('confirmed'))
        except Exception:
            import traceback
            doc['replay_leaf_oracle'] = {'confirmed': False,
                                         'error': traceback.format_exc()}
    with open(path, 'w') as f:
        json.dump(doc, f, indent=1, default=str)
    return path, confirmed
