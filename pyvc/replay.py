"""Replaying counter-models against the real code under /venv/bin/python."""
import json
import os
import subprocess
import sys
import tempfile

import z3

from .values import _decode_z3_string

REAL_PYTHON = os.environ.get('PYVC_REAL_PYTHON', '/venv/bin/python')


def get_model(o, timeout_ms=30000, extra=None):
    s = z3.Solver()
    s.set('timeout', timeout_ms)
    for a in o.pc:
        s.add(a)
    if o.expect == 'valid':
        s.add(z3.Not(o.goal))
    else:
        s.add(o.goal)
    for e in (extra or []):
        s.add(e)
    if s.check() != z3.sat:
        return None
    return s.model()


def conc(model, term):
    """python value of a z3 term under the model"""
    v = model.eval(term, model_completion=True)
    if z3.is_string_value(v):
        return _decode_z3_string(v)
    if z3.is_int_value(v):
        return v.as_long()
    if z3.is_true(v):
        return True
    if z3.is_false(v):
        return False
    return str(v)


_DRIVER = r'''
import json, sys, os, importlib
sys.path.insert(0, %(repo)r)
spec = json.loads(sys.stdin.read())
def build(x):
    if isinstance(x, dict) and '__obj__' in x:
        mod = importlib.import_module(x['__obj__'][0])
        cls = mod
        for p in x['__obj__'][1].split('.'):
            cls = getattr(cls, p)
        return cls(*[build(a) for a in x.get('args', [])])
    if isinstance(x, dict) and '__enum__' in x:
        mod = importlib.import_module(x['__enum__'][0])
        cls = mod
        for p in x['__enum__'][1].split('.'):
            cls = getattr(cls, p)
        return getattr(cls, x['__enum__'][2])
    if isinstance(x, dict) and '__datetime__' in x:
        import datetime
        return datetime.datetime(1, 1, 1) + datetime.timedelta(microseconds=x['__datetime__'])
    if isinstance(x, dict) and '__bytes__' in x:
        return x['__bytes__'].encode('latin-1')
    if isinstance(x, list):
        return [build(a) for a in x]
    if isinstance(x, dict):
        return dict((k, build(v)) for k, v in x.items())
    return x
mod = importlib.import_module(spec['module'])
f = mod
for p in spec['qualname'].split('.'):
    f = getattr(f, p)
if 'self' in spec:
    f = getattr(build(spec['self']), spec['qualname'].split('.')[-1])
args = [build(a) for a in spec.get('args', [])]
kwargs = dict((k, build(v)) for k, v in spec.get('kwargs', {}).items())
out = {}
def enc(r):
    import datetime
    if isinstance(r, (str, int, bool, type(None), float)):
        return r
    if isinstance(r, bytes):
        return {'__bytes__': r.decode('latin-1')}
    if isinstance(r, datetime.datetime):
        return {'__datetime__': (r - datetime.datetime(1, 1, 1)) // datetime.timedelta(microseconds=1)}
    if isinstance(r, (list, tuple)):
        return [enc(x) for x in r]
    if hasattr(r, '__iter__') and not isinstance(r, dict):
        return [enc(x) for x in r]
    return {'__repr__': repr(r), '__type__': type(r).__name__}
try:
    r = f(*args, **kwargs)
    out['result'] = enc(r)
except BaseException as e:
    out['exc'] = type(e).__name__
    out['exc_mro'] = [c.__name__ for c in type(e).__mro__]
    out['exc_msg'] = str(e)[:500]
print(json.dumps(out))
'''


def run_real(module, qualname, args=(), kwargs=None, self_spec=None,
             repo=None, env=None, timeout=60):
    repo = repo or os.environ.get('PYVC_REPO', '/repo')
    spec = {'module': module, 'qualname': qualname, 'args': list(args),
            'kwargs': kwargs or {}}
    if self_spec is not None:
        spec['self'] = self_spec
    e = dict(os.environ)
    e.pop('PYTHONPATH', None)
    e.update(env or {})
    p = subprocess.run([REAL_PYTHON, '-c', _DRIVER % {'repo': repo}],
                       input=json.dumps(spec), capture_output=True, text=True,
                       env=e, timeout=timeout)
    if p.returncode != 0 or not p.stdout.strip():
        return {'driver_error': (p.stderr or '')[-2000:]}
    return json.loads(p.stdout.strip().split('\n')[-1])


def pure_replayer(terms, module, qualname, violated, self_spec=None,
                  build_args=None):
    """terms: dict argname -> z3 term (in order).  violated(args, out) decides
    on concrete values whether the property is broken."""
    def rep(S, r, o):
        m = get_model(o)
        if m is None:
            return {'confirmed': False, 'note': 'no model in replay solve'}
        cargs = dict((k, conc(m, t)) for k, t in terms.items())
        call_args = build_args(cargs) if build_args else list(cargs.values())
        out = run_real(module, qualname, call_args, self_spec=self_spec,
                       repo=S.interp.repo)
        bad = False
        try:
            bad = bool(violated(cargs, out))
        except Exception as e:
            out['check_error'] = repr(e)
        return {'confirmed': bad, 'inputs': cargs,
                'call': '%s.%s' % (module, qualname), 'real_outcome': out}
    return rep
