"""Bounded differential validation of the library models against CPython
(thorough tier).  Never counted as proof."""
import itertools
import posixpath
import random
from urllib.parse import quote, unquote_to_bytes

import z3

from . import spec
from .ctx import Ctx, Stats


def _ctx():
    return Ctx([], Stats(), 0)


def _proved(c, f, timeout_ms=20000):
    """True (entailed) / False (counterexample) / None (undecided)"""
    s = z3.Solver()
    s.set('timeout', timeout_ms)
    for a in c.pc:
        s.add(a)
    s.add(z3.Not(f))
    r = s.check()
    if r == z3.unsat:
        return True
    if r == z3.sat:
        return False
    return None


def posixpath_models(max_len=5, alphabet='/.a'):
    """the symbolic encodings of basename / dirname / join / rstrip and the
    normpath / abspath axioms, instantiated on every string up to max_len over
    the alphabet, against posixpath"""
    problems = []
    undecided = []
    n = 0
    strings = ['']
    for k in range(1, max_len + 1):
        strings += [''.join(t) for t in itertools.product(alphabet, repeat=k)]
    for p in strings:
        n += 1
        c = _ctx()
        x = z3.String('x')
        c.assume(x == z3.StringVal(p))
        for name, term, want in (
                ('basename', spec.basename(c, x), posixpath.basename(p)),
                ('dirname', spec.dirname(c, x), posixpath.dirname(p)),
                ('rstrip', spec.rstrip_slashes(c, x), p.rstrip('/'))):
            v = _proved(c, term == z3.StringVal(want))
            if v is False:
                problems.append('%s(%r) != %r under the encoding' % (name, p, want))
            elif v is None:
                undecided.append('%s(%r)' % (name, p))
        # normpath axioms must be consistent with the real value
        c.ghost['normpath_no_shape_fork'] = True
        r = spec.normpath(c, x)
        if not c.feasible(r == z3.StringVal(posixpath.normpath(p))):
            problems.append('normpath axioms exclude normpath(%r) = %r' % (
                p, posixpath.normpath(p)))
        if p.startswith('/'):
            c2 = _ctx()
            x2 = z3.String('x')
            c2.assume(x2 == z3.StringVal(p))
            a = spec.abspath(c2, x2)
            if not c2.feasible(a == z3.StringVal(posixpath.abspath(p))):
                problems.append('abspath axioms exclude abspath(%r) = %r' % (
                    p, posixpath.abspath(p)))
    # join on pairs (shorter strings)
    short = [s for s in strings if len(s) <= 3]
    for a in short:
        for b in short:
            n += 1
            t = spec.join2(z3.StringVal(a), z3.StringVal(b))
            v = z3.simplify(t)
            if not (z3.is_string_value(v) and v.as_string() == posixpath.join(a, b)):
                c = _ctx()
                if _proved(c, t == z3.StringVal(posixpath.join(a, b))) is False:
                    problems.append('join(%r,%r) != %r' % (a, b, posixpath.join(a, b)))
    return {'what': 'posixpath models vs CPython', 'cases': n,
            'bound': 'all strings of length <= %d over %r (join: <= 3)' % (
                max_len, alphabet),
            'problems': problems[:10], 'undecided': undecided[:10],
            'counts_as_proof': False}


def quote_models(seed=0, n_random=2000):
    """enc_byte / the dec step of contracts/c03.py against urllib for all
    single bytes, all byte pairs starting with '%', and random byte strings"""
    from contracts.c03 import enc_byte
    problems = []
    n = 0
    for safe in ('/', '/%', ''):
        for b in range(1, 256):
            n += 1
            want = quote(bytes([b]), safe)
            if enc_byte(b, safe) != want:
                problems.append('enc(%d, %r) = %r, urllib says %r' % (
                    b, safe, enc_byte(b, safe), want))

    def dec(t):
        out = bytearray()
        i = 0
        hexd = '0123456789abcdefABCDEF'
        while i < len(t):
            if t[i] == '%' and i + 2 < len(t) + 0 and i + 2 <= len(t) - 1 + 0 \
                    and t[i + 1] in hexd and t[i + 2] in hexd:
                out.append(int(t[i + 1:i + 3], 16))
                i += 3
            else:
                out.append(ord(t[i]))
                i += 1
        return bytes(out)
    rnd = random.Random(seed)
    alphabet = '%0aF/g+ '
    for _ in range(n_random):
        n += 1
        t = ''.join(rnd.choice(alphabet) for _ in range(rnd.randint(0, 8)))
        if dec(t) != unquote_to_bytes(t):
            problems.append('dec(%r) = %r, urllib says %r' % (
                t, dec(t), unquote_to_bytes(t)))
    return {'what': 'percent-encoding model vs urllib', 'cases': n,
            'bound': 'all single bytes x 3 safe sets, %d random strings over %r'
                     % (n_random, alphabet),
            'problems': problems[:10], 'counts_as_proof': False}


def datetime_models(seed=0, n=2000):
    import datetime
    rnd = random.Random(seed)
    problems = []
    fmt = '%Y-%m-%dT%H:%M:%S'
    for _ in range(n):
        d = datetime.datetime(1000, 1, 1) + datetime.timedelta(
            seconds=rnd.randint(0, 9000 * 365 * 86400 - 1),
            microseconds=rnd.randint(0, 999999))
        back = datetime.datetime.strptime('DeletionDate=' + d.strftime(fmt),
                                          'DeletionDate=' + fmt)
        if back != d.replace(microsecond=0):
            problems.append('%r -> %r' % (d, back))
    return {'what': 'strptime(prefix+strftime(d)) = d truncated to seconds',
            'cases': n, 'bound': '%d random dates, years 1000..9999' % n,
            'problems': problems[:10], 'counts_as_proof': False}


def argparse_models(repo=None, seed=0, n=120):
    """the argparse model of pyvc/argmodel.py against the real argparse, on
    generated argument vectors of the canonical shape, through the real
    parser modules of the tree under test (both sides run the same source)"""
    import json
    import subprocess
    import os
    from .vc import Session
    from .values import PyExc, TupleObj, Obj, OutsideSubset
    from contracts import options
    rnd = random.Random(seed)
    tables = {'put': options.PUT_TABLE, 'empty': options.EMPTY_TABLE,
              'restore': options.RESTORE_TABLE, 'list': options.LIST_TABLE}
    values = ['x', 'a b', '7', 'date', 'path', 'none', '/t/d', '0', 'é']
    jobs = []
    for cmd, table in tables.items():
        for _ in range(n):
            argv = []
            for _k in range(rnd.randint(0, 3)):
                ent = rnd.choice(table)
                argv.append(ent[0])
                if ent[1]:
                    argv.append(rnd.choice(values))
            if rnd.random() < 0.3:
                argv.append('--')
                argv += [rnd.choice(values + ['-dash', '--x']) for _k in range(rnd.randint(0, 2))]
            else:
                argv += [rnd.choice(values) for _k in range(rnd.randint(0, 2))]
            jobs.append([cmd, argv])
    S = Session('argparse-validation', repo=repo)
    repo = S.interp.repo
    p = subprocess.run(['/venv/bin/python', os.path.join(os.path.dirname(
        os.path.abspath(__file__)), 'argparse_real.py')], input=json.dumps(jobs),
        capture_output=True, text=True, env=dict(os.environ, PYTHONPATH=repo),
        timeout=300)
    real = json.loads(p.stdout)
    model = []

    def norm(v):
        if isinstance(v, (list, tuple)):
            return [norm(x) for x in v]
        if isinstance(v, TupleObj):
            return 'obj:' + v.cls.name
        if isinstance(v, Obj):
            if 'name' in v.attrs and 'value' in v.attrs:
                return 'enum:' + v.attrs['name']
            return 'obj:' + v.cls.name
        if isinstance(v, (str, int, bool)) or v is None:
            return v
        return 'obj:?'

    def body(V):
        I = V.I
        for cmd, argv in jobs:
            try:
                if cmd == 'put':
                    o = I.call(I.lookup('trashcli.put.parser', 'Parser'), [], {})
                    r = I.call(I.getattr(o, 'parse_args'), [['trash-put'] + argv], {})
                elif cmd == 'empty':
                    o = I.call(I.lookup('trashcli.empty.parser', 'Parser'), [], {})
                    r = I.call(I.getattr(o, 'parse'), [False, {}, argv, 123, 'trash-empty'], {})
                elif cmd == 'restore':
                    o = I.call(I.lookup('trashcli.restore.restore_arg_parser',
                                        'RestoreArgParser'), [], {})
                    r = I.call(I.getattr(o, 'parse_restore_args'),
                               [['trash-restore'] + argv, '/cur/dir'], {})
                else:
                    o = I.call(I.lookup('trashcli.list.parser', 'Parser'), ['trash-list'], {})
                    r = I.call(I.getattr(o, 'parse_list_args'), [argv, 'trash-list'], {})
                f = options._fields(r)
                for k in ('options', 'type', 'environ'):
                    f.pop(k, None)
                model.append({'kind': r.cls.name,
                              'fields': dict((k, norm(v)) for k, v in f.items())})
            except PyExc as pe:
                if pe.value.cls.name == 'SystemExit':
                    model.append({'kind': 'SystemExit', 'code': pe.value.attrs.get('code')})
                else:
                    model.append({'kind': 'exception:' + pe.value.cls.name})
            except OutsideSubset as e:
                model.append({'kind': 'outside-subset', 'why': str(e)})
    S.run_paths('argparse-validation', body)
    problems = []
    outside = 0
    for (cmd, argv), a, b in zip(jobs, real, model):
        if b.get('kind') == 'outside-subset':
            outside += 1
            continue
        if a != b:
            problems.append('%s %r: real %r, model %r' % (cmd, argv, a, b))
    if S.errors or len(model) != len(jobs):
        problems.append('model run incomplete: %r' % (S.errors[:2],))
    return {'what': 'argparse model vs the real argparse through the real parser modules',
            'cases': len(jobs), 'outside_model': outside,
            'bound': '%d generated vectors per command, <= 3 options, <= 2 operands' % n,
            'problems': problems[:10], 'counts_as_proof': False}


def engine_differential(repo=None):
    """the symbolic interpreter in CONCRETE mode (all arguments literals)
    against CPython, on pure functions of the tree under test and generated
    arguments: same result or same exception class.  Guards the interpreter
    and the library models on concrete values; bounded, never proof."""
    import json
    import os
    import subprocess
    from .vc import Session
    from .values import PyExc, OutsideSubset, Obj, TupleObj, is_sym
    from .libmodels import DateV
    import z3 as _z3

    def comps(tokens, n):
        out = []
        for k in range(1, n + 1):
            out += [''.join(t) for t in itertools.product(tokens, repeat=k)]
        return out
    jobs = []
    for p in comps(['/t', '/info/', 'a', '.trashinfo', '.', '/'], 3):
        if p.endswith('.trashinfo') and not p.endswith('/.trashinfo') and \
                p not in ('.trashinfo', '..trashinfo', '...trashinfo'):
            jobs.append(['trashcli.lib.path_of_backup_copy', 'path_of_backup_copy', [p]])
    lines = ['[Trash Info]', 'Path=a%20b', 'Path=/x/%41y', 'Path=', 'DeletionDate=2001-02-03T04:05:06',
             'DeletionDate=bad', 'X=1', '']
    for k in (1, 2, 3):
        for c in itertools.product(lines, repeat=k):
            t = '\n'.join(c) + '\n'
            jobs.append(['trashcli.parse_trashinfo.parse_path', 'parse_path', [t]])
            jobs.append(['trashcli.parse_trashinfo.parse_deletion_date',
                         'parse_deletion_date', [t]])
            jobs.append(['trashcli.parse_trashinfo.maybe_parse_deletion_date',
                         'maybe_parse_deletion_date', [t]])
    for s in comps(['.', '/', 'a', '..'], 4):
        jobs.append(['trashcli.put.core.trashee', 'should_skipped_by_specs', [s]])
    for r in ['', 'y', 'Y', 'yes', 'n', ' y', 'No', 'ý']:
        jobs.append(['trashcli.empty.parse_reply', 'parse_reply', [r]])
        jobs.append(['trashcli.put.user', 'parse_user_reply', [r]])
    for env in ({}, {'HOME': '/h'}, {'XDG_DATA_HOME': '/x'}, {'XDG_DATA_HOME': '', 'HOME': '/h'},
                {'XDG_DATA_HOME': '/x', 'HOME': '/h'}, {'HOME': ''}):
        jobs.append(['trashcli.lib.trash_dirs', 'home_trash_dir_path_from_env', [env]])
    for loc in ['/a/b', '/a b/c%d', 'rel/x', '/é', '/a+b', '/new\nline']:
        jobs.append(['trashcli.put.format_trash_info', 'format_original_location', [loc]])
    S = Session('engine-differential', repo=repo)
    repo = S.interp.repo
    p = subprocess.run(['/venv/bin/python', os.path.join(os.path.dirname(
        os.path.abspath(__file__)), 'engine_real.py')], input=json.dumps(jobs),
        capture_output=True, text=True, env=dict(os.environ, PYTHONPATH=repo),
        timeout=600)
    real = json.loads(p.stdout)
    model = []

    def enc(r):
        if is_sym(r):
            v = _z3.simplify(r.t)
            if _z3.is_string_value(v):
                return v.as_string()
            if _z3.is_int_value(v):
                return v.as_long()
            if _z3.is_true(v) or _z3.is_false(v):
                return _z3.is_true(v)
            return 'symbolic'
        if isinstance(r, (str, int, bool, type(None))):
            return r
        if isinstance(r, DateV):
            us = _z3.simplify(r.us)
            if _z3.is_int_value(us):
                import datetime
                return 'datetime:' + (datetime.datetime(1, 1, 1) + datetime.timedelta(
                    microseconds=us.as_long())).strftime('%Y-%m-%dT%H:%M:%S')
            return 'symbolic'
        if isinstance(r, (list, tuple)):
            return [enc(x) for x in r]
        if isinstance(r, Obj):
            return 'obj:' + r.cls.name
        return 'symbolic'

    def body(V):
        I = V.I
        for module, qualname, args in jobs:
            try:
                f = I.lookup(module, qualname)
                model.append({'result': enc(I.call(f, list(args), {}))})
            except PyExc as pe:
                model.append({'exc': pe.value.cls.name})
            except OutsideSubset as e:
                model.append({'outside': str(e)})
    S.run_paths('engine-differential', body)
    problems = []
    symbolic = outside = 0
    forks = S.paths
    for job, a, b in zip(jobs, real, model):
        if 'outside' in b:
            outside += 1
            continue
        if b.get('result') == 'symbolic' or (isinstance(b.get('result'), list)
                                             and 'symbolic' in b['result']):
            symbolic += 1
            continue
        if a != b:
            problems.append('%s.%s%r: CPython %r, pyvc %r' % (job[0], job[1], job[2], a, b))
    if S.errors or len(model) < len(jobs):
        problems.append('engine run incomplete: %d of %d, %r' % (
            len(model), len(jobs), S.errors[:2]))
    if forks != 1:
        problems.append('concrete arguments made the interpreter fork (%d paths)' % forks)
    return {'what': 'pyvc interpreter on concrete arguments vs CPython (pure repo functions)',
            'cases': len(jobs), 'left_symbolic': symbolic, 'outside_subset': outside,
            'bound': 'token-grammar arguments for 9 pure functions',
            'problems': problems[:10], 'counts_as_proof': False}
