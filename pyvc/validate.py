"""Bounded differential validation of the library models against CPython
(thorough tier).  Never counted as proof."""
import itertools
import posixpath
import random
from urllib.parse import quote, unquote_to_bytes

import z3

from . import spec
from .ctx import Ctx, Stats


def _ctx():
    return Ctx([], Stats(), 0)


def _proved(c, f, timeout_ms=20000):
    """True (entailed) / False (counterexample) / None (undecided)"""
    s = z3.Solver()
    s.set('timeout', timeout_ms)
    for a in c.pc:
        s.add(a)
    s.add(z3.Not(f))
    r = s.check()
    if r == z3.unsat:
        return True
    if r == z3.sat:
        return False
    return None


def posixpath_models(max_len=5, alphabet='/.a'):
    """the symbolic encodings of basename / dirname / join / rstrip and the
    normpath / abspath axioms, instantiated on every string up to max_len over
    the alphabet, against posixpath"""
    problems = []
    undecided = []
    n = 0
    strings = ['']
    for k in range(1, max_len + 1):
        strings += [''.join(t) for t in itertools.product(alphabet, repeat=k)]
    for p in strings:
        n += 1
        c = _ctx()
        x = z3.String('x')
        c.assume(x == z3.StringVal(p))
        for name, term, want in (
                ('basename', spec.basename(c, x), posixpath.basename(p)),
                ('dirname', spec.dirname(c, x), posixpath.dirname(p)),
                ('rstrip', spec.rstrip_slashes(c, x), p.rstrip('/'))):
            v = _proved(c, term == z3.StringVal(want))
            if v is False:
                problems.append('%s(%r) != %r under the encoding' % (name, p, want))
            elif v is None:
                undecided.append('%s(%r)' % (name, p))
        # normpath axioms must be consistent with the real value
        c.ghost['normpath_no_shape_fork'] = True
        r = spec.normpath(c, x)
        if not c.feasible(r == z3.StringVal(posixpath.normpath(p))):
            problems.append('normpath axioms exclude normpath(%r) = %r' % (
                p, posixpath.normpath(p)))
        if p.startswith('/'):
            c2 = _ctx()
            x2 = z3.String('x')
            c2.assume(x2 == z3.StringVal(p))
            a = spec.abspath(c2, x2)
            if not c2.feasible(a == z3.StringVal(posixpath.abspath(p))):
                problems.append('abspath axioms exclude abspath(%r) = %r' % (
                    p, posixpath.abspath(p)))
    # join on pairs (shorter strings)
    short = [s for s in strings if len(s) <= 3]
    for a in short:
        for b in short:
            n += 1
            t = spec.join2(z3.StringVal(a), z3.StringVal(b))
            v = z3.simplify(t)
            if not (z3.is_string_value(v) and v.as_string() == posixpath.join(a, b)):
                c = _ctx()
                if _proved(c, t == z3.StringVal(posixpath.join(a, b))) is False:
                    problems.append('join(%r,%r) != %r' % (a, b, posixpath.join(a, b)))
    return {'what': 'posixpath models vs CPython', 'cases': n,
            'bound': 'all strings of length <= %d over %r (join: <= 3)' % (
                max_len, alphabet),
            'problems': problems[:10], 'undecided': undecided[:10],
            'counts_as_proof': False}


def quote_models(seed=0, n_random=2000):
    """enc_byte / the dec step of contracts/c03.py against urllib for all
    single bytes, all byte pairs starting with '%', and random byte strings"""
    from contracts.c03 import enc_byte
    problems = []
    n = 0
    for safe in ('/', '/%', ''):
        for b in range(1, 256):
            n += 1
            want = quote(bytes([b]), safe)
            if enc_byte(b, safe) != want:
                problems.append('enc(%d, %r) = %r, urllib says %r' % (
                    b, safe, enc_byte(b, safe), want))

    def dec(t):
        out = bytearray()
        i = 0
        hexd = '0123456789abcdefABCDEF'
        while i < len(t):
            if t[i] == '%' and i + 2 < len(t) + 0 and i + 2 <= len(t) - 1 + 0 \
                    and t[i + 1] in hexd and t[i + 2] in hexd:
                out.append(int(t[i + 1:i + 3], 16))
                i += 3
            else:
                out.append(ord(t[i]))
                i += 1
        return bytes(out)
    rnd = random.Random(seed)
    alphabet = '%0aF/g+ '
    for _ in range(n_random):
        n += 1
        t = ''.join(rnd.choice(alphabet) for _ in range(rnd.randint(0, 8)))
        if dec(t) != unquote_to_bytes(t):
            problems.append('dec(%r) = %r, urllib says %r' % (
                t, dec(t), unquote_to_bytes(t)))
    return {'what': 'percent-encoding model vs urllib', 'cases': n,
            'bound': 'all single bytes x 3 safe sets, %d random strings over %r'
                     % (n_random, alphabet),
            'problems': problems[:10], 'counts_as_proof': False}


def datetime_models(seed=0, n=2000):
    import datetime
    rnd = random.Random(seed)
    problems = []
    fmt = '%Y-%m-%dT%H:%M:%S'
    for _ in range(n):
        d = datetime.datetime(1000, 1, 1) + datetime.timedelta(
            seconds=rnd.randint(0, 9000 * 365 * 86400 - 1),
            microseconds=rnd.randint(0, 999999))
        back = datetime.datetime.strptime('DeletionDate=' + d.strftime(fmt),
                                          'DeletionDate=' + fmt)
        if back != d.replace(microsecond=0):
            problems.append('%r -> %r' % (d, back))
    return {'what': 'strptime(prefix+strftime(d)) = d truncated to seconds',
            'cases': n, 'bound': '%d random dates, years 1000..9999' % n,
            'problems': problems[:10], 'counts_as_proof': False}
