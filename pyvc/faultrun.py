"""Driver run under /venv/bin/python: executes a trash-cli script with the
mutating os primitives counted, and optionally makes the k-th one kill the
process (os._exit) or fail with an errno.

usage: faultrun.py <script> <json-config> [args...]
config: {"kill_at": k | null, "fail": {"<k>": errno}, "log": path,
         "stdin": text | null}
"""
import json
import os
import sys


def main():
    script = sys.argv[1]
    cfg = json.loads(sys.argv[2])
    args = sys.argv[3:]
    kill_at = cfg.get('kill_at')
    fail = dict((int(k), v) for k, v in (cfg.get('fail') or {}).items())
    fail_op = cfg.get('fail_op') or {}      # {"name": errno}: every call
    log_path = cfg.get('log')
    counter = [0]
    log = []
    names = ['remove', 'unlink', 'rename', 'rmdir', 'mkdir', 'makedirs',
             'open', 'write', 'close', 'symlink', 'replace', 'sendfile',
             'copy_file_range', 'chmod', 'utime', 'link', 'truncate']

    def flush():
        if log_path:
            with real_open(log_path, 'w') as f:
                json.dump(log, f)

    import builtins
    real_open = builtins.open
    real = {}

    def wrap(name):
        fn = getattr(os, name)
        real[name] = fn

        def w(*a, **k):
            if name in ('open',) and not (len(a) > 1 and (a[1] & (
                    os.O_WRONLY | os.O_RDWR | os.O_CREAT))):
                return fn(*a, **k)
            if name in ('write', 'close') and (not a or not isinstance(a[0], int) or a[0] < 3 or a[0] not in tracked):
                return fn(*a, **k)
            counter[0] += 1
            n = counter[0]
            log.append([n, name, [repr(x)[:200] for x in a]])
            if kill_at is not None and n == kill_at:
                flush()
                os._exit(99)
            if n in fail or name in fail_op:
                en = fail.get(n, fail_op.get(name))
                log[-1].append('fail %d' % en)
                raise OSError(en, os.strerror(en), a[0] if a and isinstance(a[0], str) else None)
            r = fn(*a, **k)
            if name == 'open':
                tracked.add(r)
            if name == 'close':
                tracked.discard(a[0])
            return r
        return w

    tracked = set()
    for nm in names:
        if hasattr(os, nm):
            setattr(os, nm, wrap(nm))

    def bopen(file, mode='r', *a, **k):
        # builtins.open for writing (shutil's copy fallback uses it)
        if isinstance(mode, str) and any(c in mode for c in 'wax+') and \
                isinstance(file, (str, bytes, os.PathLike)):
            counter[0] += 1
            n = counter[0]
            log.append([n, 'builtins.open', [repr(file)[:200], mode]])
            if kill_at is not None and n == kill_at:
                flush()
                os._exit(99)
            if n in fail or 'builtins.open' in fail_op:
                en = fail.get(n, fail_op.get('builtins.open'))
                log[-1].append('fail %d' % en)
                raise OSError(en, os.strerror(en), file)
        return real_open(file, mode, *a, **k)
    builtins.open = bopen
    sys.argv = [script] + args
    if cfg.get('stdin') is not None:
        import io
        sys.stdin = io.StringIO(cfg['stdin'])
    import runpy
    code = 0
    try:
        runpy.run_path(script, run_name='__main__')
    except SystemExit as e:
        code = e.code if isinstance(e.code, int) else (0 if e.code is None else 1)
    except BaseException:
        import traceback
        traceback.print_exc()
        code = 1
    flush()
    sys.stdout.flush()
    sys.stderr.flush()
    os._exit(code)


main()
