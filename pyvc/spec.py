"""Spec-level string/path functions as z3 encodings.

These are the *library models* (DESIGN.md section 3): exact encodings of
posixpath.basename/dirname/join, plus axiomatised normpath/realpath etc.
Functions take/return z3 terms; definitional side constraints are added to
the path context (`ctx.assume`), which is sound because every such constraint
defines a fresh symbol as a total function of existing terms.
"""
import z3

from .values import tid

SLASH = z3.StringVal('/')
EMPTY = z3.StringVal('')

_ALL_SLASHES = z3.Star(z3.Re('/'))

# uninterpreted library functions -------------------------------------------
S = z3.StringSort()
I = z3.IntSort()
B = z3.BoolSort()
State = z3.DeclareSort('State')

normpath_f = z3.Function('normpath', S, S)
abspath_f = z3.Function('abspath', S, S)
realpath_f = z3.Function('realpath', State, S, S)
quote_f = z3.Function('url_quote', S, S, S)          # (string, safe)
unquote_f = z3.Function('url_unquote', S, S)
unquote_plus_f = z3.Function('url_unquote_plus', S, S)
utf8_f = z3.Function('utf8_encode', S, S)
decode_f = z3.Function('locale_decode', S, S)
int_ok_f = z3.Function('int_ok', S, B)
int_val_f = z3.Function('int_val', S, I)
lower_f = z3.Function('str_lower', S, S)
replace_all_f = z3.Function('str_replace_all', S, S, S, S)
glob_f = z3.Function('fnmatchcase', S, S, B)
str_of_f = z3.Function('str_of_opaque', I, S)
int_str_f = z3.Function('str_of_int', I, S)   # str(i): decimal digits; kept uninterpreted (injectivity not assumed)
strftime_f = z3.Function('strftime', S, I, S)         # (fmt, date_us)
strptime_ok_f = z3.Function('strptime_ok', S, S, B)   # (fmt, text)
strptime_val_f = z3.Function('strptime_val', S, S, I)
datestr_f = z3.Function('str_of_datetime', I, S)

split_len_f = z3.Function('str_split_len', S, S, I)    # (string, sep)
split_at_f = z3.Function('str_split_at', S, S, I, S)   # (string, sep, index)

ASCII_RE = z3.Star(z3.Range('\x00', '\x7f'))


def is_literal(t):
    return z3.is_string_value(t)


def lit(t):
    from .values import mk
    v = mk(t)
    return v if isinstance(v, str) else None


def contains_slash(t):
    return z3.Contains(t, SLASH)


# --- structural helpers: most path terms are concatenations with literal
# separators; deciding basename/dirname/join on the *structure* keeps word
# equations away from the solver ---------------------------------------------
def pieces(t):
    """flatten a concat term into its pieces (literals merged)"""
    if z3.is_app(t) and t.decl().kind() == z3.Z3_OP_SEQ_CONCAT:
        out = []
        for c in t.children():
            out.extend(pieces(c))
    else:
        out = [t]
    merged = []
    for x in out:
        lx = lit(x)
        if lx is not None and merged and lit(merged[-1]) is not None:
            merged[-1] = z3.StringVal(lit(merged[-1]) + lx)
        elif lx == '':
            continue
        else:
            merged.append(x)
    return merged


def set_alias(ctx, t, structured):
    """record that term t equals the structured term (the caller has assumed
    the equality); structural helpers then look through t"""
    ctx.notes.setdefault('aliases', {})[tid(t)] = structured


def cpieces(ctx, t):
    """pieces with aliases expanded"""
    al = ctx.notes.get('aliases') if ctx is not None else None
    ps = pieces(t)
    if not al:
        return ps
    out = []
    changed = False
    for p in ps:
        if tid(p) in al:
            out.extend(cpieces(ctx, al[tid(p)]))
            changed = True
        else:
            out.append(p)
    return pieces(cat(out)) if changed else ps


def cat(ps):
    from .values import canon_str
    ps = [p for p in ps if lit(p) != '']
    if not ps:
        return EMPTY
    if len(ps) == 1:
        return ps[0]
    return canon_str(z3.Concat(*ps))


def mark_noslash(ctx, t):
    ctx.notes.setdefault('noslash', set()).add(tid(t))


def mark_nonempty(ctx, t):
    ctx.notes.setdefault('nonempty', set()).add(tid(t))


def mark_noendslash(ctx, t):
    """t is non-empty and does not end with '/' (caller has assumed it)"""
    ctx.notes.setdefault('noendslash', set()).add(tid(t))
    ctx.notes.setdefault('nonempty', set()).add(tid(t))


def mark_slashes1(ctx, t):
    """t is a non-empty run of '/' (caller has assumed it)"""
    ctx.notes.setdefault('slashes1', set()).add(tid(t))
    ctx.notes.setdefault('nonempty', set()).add(tid(t))


def _sl1(ctx, t):
    return ctx is not None and tid(t) in ctx.notes.get('slashes1', ())


def _nes(ctx, t):
    i = tid(t)
    return i in ctx.notes.get('noendslash', ()) or (
        i in ctx.notes.get('noslash', ()) and i in ctx.notes.get('nonempty', ()))


def noslash(ctx, t):
    for p in cpieces(ctx, t):
        l = lit(p)
        if l is not None:
            if '/' in l:
                return False
        elif tid(p) not in ctx.notes.get('noslash', ()):
            return False
    return True


def nonempty(ctx, t):
    for p in cpieces(ctx, t):
        l = lit(p)
        if l:
            return True
        if l is None and tid(p) in ctx.notes.get('nonempty', ()):
            return True
    return False


def mark_digits(ctx, t):
    """t is a non-empty string of decimal digits (caller has assumed it)"""
    ctx.notes.setdefault('digits', set()).add(tid(t))
    mark_noslash(ctx, t)
    mark_nonempty(ctx, t)


def definitely_different(ctx, a, b):
    """cheap structural test: True only if a != b for sure (first or last
    characters differ by construction)"""
    pa, pb = cpieces(ctx, a), cpieces(ctx, b)
    if not pa or not pb:
        return (nonempty(ctx, a) if not pb else nonempty(ctx, b)) \
            if (not pa) != (not pb) else False
    la, lb = lit(pa[-1]), lit(pb[-1])
    dig = ctx.notes.get('digits', ())
    if la is not None and lb is not None:
        n = min(len(la), len(lb))
        if la[-n:] != lb[-n:]:
            return True
    if la is not None and tid(pb[-1]) in dig and not la[-1].isdigit():
        return True
    if lb is not None and tid(pa[-1]) in dig and not lb[-1].isdigit():
        return True
    fa, fb = lit(pa[0]), lit(pb[0])
    if fa is not None and fb is not None:
        n = min(len(fa), len(fb))
        if fa[:n] != fb[:n]:
            return True
    return False


def split_last_slash(ctx, p):
    """returns (head, tail) with p = head ++ tail, tail has no '/', head is ''
    or ends with '/'  (posixpath.split before head stripping)."""
    l = lit(p)
    if l is not None:
        i = l.rfind('/') + 1
        return z3.StringVal(l[:i]), z3.StringVal(l[i:])
    key = ('split_last', tid(p))
    if key in ctx.notes:
        return ctx.notes[key]
    # structural fast path
    ps = cpieces(ctx, p)
    tail = []
    k = len(ps) - 1
    res = None
    while k >= 0:
        x = ps[k]
        lx = lit(x)
        if lx is not None:
            if '/' in lx:
                i = lx.rfind('/') + 1
                res = (cat(ps[:k] + [z3.StringVal(lx[:i])]),
                       cat([z3.StringVal(lx[i:])] + tail))
                break
            tail.insert(0, x)
        elif tid(x) in ctx.notes.get('noslash', ()):
            tail.insert(0, x)
        elif _sl1(ctx, x):
            res = (cat(ps[:k + 1]), cat(tail))
            break
        else:
            break
        k -= 1
    if res is None and k < 0:
        res = (EMPTY, cat(tail))
    if res is None:
        h = ctx.fresh_str('hd')
        t = ctx.fresh_str('tl')
        ctx.assume(p == z3.Concat(h, t))
        ctx.assume(z3.Not(z3.Contains(t, SLASH)))
        ctx.assume(z3.Or(h == EMPTY, z3.SuffixOf(SLASH, h)))
        mark_noslash(ctx, t)
        res = (h, t)
    ctx.notes[key] = res
    return res


def basename(ctx, p):
    return split_last_slash(ctx, p)[1]


def rstrip_slashes(ctx, h):
    """h.rstrip('/')"""
    l = lit(h)
    if l is not None:
        return z3.StringVal(l.rstrip('/'))
    key = ('rstrip', tid(h))
    if key in ctx.notes:
        return ctx.notes[key]
    ps = cpieces(ctx, h)
    res = None
    while ps:
        lx = lit(ps[-1])
        if lx is not None:
            st = lx.rstrip('/')
            if st:
                res = cat(ps[:-1] + [z3.StringVal(st)])
                break
            ps = ps[:-1]
            continue
        if _sl1(ctx, ps[-1]):
            ps = ps[:-1]
            continue
        if _nes(ctx, ps[-1]):
            res = cat(ps)
        break
    if res is None and not ps:
        res = EMPTY
    if res is None:
        base = cat(ps)
        bkey = ('rstrip', tid(base))
        if bkey in ctx.notes:
            res = ctx.notes[bkey]
        else:
            d = ctx.fresh_str('rs')
            sl = ctx.fresh_str('sl')
            ctx.assume(base == z3.Concat(d, sl))
            ctx.assume(z3.InRe(sl, _ALL_SLASHES))
            ctx.assume(z3.Not(z3.SuffixOf(SLASH, d)))
            ctx.notes[bkey] = d
            res = d
    ctx.notes[key] = res
    return res


def all_slashes(ctx, h):
    """z3 Bool: h consists of '/' only (includes '')"""
    for p in cpieces(ctx, h):
        l = lit(p)
        if l is not None and l.strip('/'):
            return z3.BoolVal(False)
        if l is None and _nes(ctx, p):
            return z3.BoolVal(False)
    return z3.InRe(h, _ALL_SLASHES)


def dirname(ctx, p):
    """posixpath.dirname: head = p[:rfind('/')+1]; if head and head is not all
    slashes: head = head.rstrip('/')"""
    l = lit(p)
    if l is not None:
        import posixpath
        return z3.StringVal(posixpath.dirname(l))
    h, _t = split_last_slash(ctx, p)
    alls = all_slashes(ctx, h)
    if z3.is_false(alls):
        return rstrip_slashes(ctx, h)
    if z3.is_true(z3.simplify(alls)):
        return h
    d = rstrip_slashes(ctx, h)
    return z3.If(alls, h, d)


def starts_with_slash(ctx, b):
    """True / False / None (unknown syntactically)"""
    for p in cpieces(ctx, b):
        l = lit(p)
        if l is not None:
            if l == '':
                continue
            return l.startswith('/')
        if _sl1(ctx, p):
            return True
        if ctx is not None and tid(p) in ctx.notes.get('noslash', ()):
            if tid(p) in ctx.notes.get('nonempty', ()):
                return False
            continue      # possibly empty, but contributes no slash
        if ctx is not None and tid(p) in ctx.notes.get('noendslash', ()):
            return None
        return None
    return False


def ends_with_slash_or_empty(ctx, a):
    ps = cpieces(ctx, a)
    if not ps:
        return True
    l = lit(ps[-1])
    if l is not None:
        return l.endswith('/')
    if _sl1(ctx, ps[-1]):
        return True
    if ctx is not None and _nes(ctx, ps[-1]):
        return False
    return None


def join2(a, b, ctx=None):
    """posixpath.join(a, b)"""
    sw = starts_with_slash(ctx, b)
    if sw is True:
        return b
    es = ends_with_slash_or_empty(ctx, a)
    if es is True:
        inner = cat(cpieces(ctx, a) + cpieces(ctx, b))
    elif es is False:
        inner = cat(cpieces(ctx, a) + [SLASH] + cpieces(ctx, b))
    else:
        inner = z3.If(z3.Or(a == EMPTY, z3.SuffixOf(SLASH, a)),
                      z3.Concat(a, b), z3.Concat(a, SLASH, b))
    if sw is False:
        return inner
    return z3.If(z3.PrefixOf(SLASH, b), b, inner)


def join(*parts, **kw):
    ctx = kw.get('ctx')
    r = parts[0]
    for p in parts[1:]:
        r = join2(r, p, ctx)
    return r


# --- normpath -----------------------------------------------------------
# regular languages used by the normpath axioms
_ANY = z3.Full(z3.ReSort(S))
_COMP_DOT = z3.Re('.')
_COMP_DOTDOT = z3.Re('..')


def _re_concat(*rs):
    return z3.Concat(*rs) if len(rs) > 1 else rs[0]


# a path is "clean" iff normpath(p) == p is guaranteed syntactically:
# non-empty, no '//' anywhere (except we exclude leading '//' too), no
# trailing '/', (unless p == '/'), no '.' component (unless p == '.'), no
# '..' component.
_BAD = z3.Union(
    _re_concat(_ANY, z3.Re('//'), _ANY),
    _re_concat(_ANY, z3.Re('/')),
    z3.Re('.'), z3.Re('..'),
    _re_concat(z3.Re('./'), _ANY), _re_concat(z3.Re('../'), _ANY),
    _re_concat(_ANY, z3.Re('/.')), _re_concat(_ANY, z3.Re('/..')),
    _re_concat(_ANY, z3.Re('/./'), _ANY), _re_concat(_ANY, z3.Re('/../'), _ANY),
)


def clean_path(p):
    """syntactic sufficient condition for normpath(p) == p: non-empty, and
    either '/' or: no '//', no trailing '/', no '.' or '..' component"""
    sv = z3.StringVal
    bad = z3.Or(z3.Contains(p, sv('//')), z3.SuffixOf(SLASH, p),
                p == sv('.'), p == sv('..'),
                z3.PrefixOf(sv('./'), p), z3.PrefixOf(sv('../'), p),
                z3.SuffixOf(sv('/.'), p), z3.SuffixOf(sv('/..'), p),
                z3.Contains(p, sv('/./')), z3.Contains(p, sv('/../')))
    return z3.And(p != EMPTY, z3.Or(p == SLASH, z3.Not(bad)))


def normpath(ctx, p):
    l = lit(p)
    if l is not None:
        import posixpath
        return z3.StringVal(posixpath.normpath(l))
    key = ('normpath', tid(p))
    if key in ctx.notes:
        return ctx.notes[key]
    r = normpath_f(p)
    ctx.used_axioms.add('posixpath.normpath axioms')
    # result is never empty, has no trailing slash unless it is all
    # slashes ('/' or '//'), is idempotent, keeps clean paths.
    ctx.assume(r != EMPTY)
    ctx.assume(z3.Or(r == SLASH, r == z3.StringVal('//'),
                     z3.Not(z3.SuffixOf(SLASH, r))))
    ctx.assume(normpath_f(r) == r)
    ctx.assume(z3.Implies(clean_path(p), r == p))
    # absolute stays absolute, relative stays relative
    ctx.assume(z3.PrefixOf(SLASH, r) == z3.PrefixOf(SLASH, p))
    # trailing slashes are irrelevant: normpath(q + '/'*k) = normpath(q)
    q = rstrip_slashes(ctx, p)
    if tid(q) != tid(p):
        ctx.assume(z3.Implies(q != EMPTY, r == normpath_f(q)))
        # instance of "clean paths are fixed points" for the stripped path
        ctx.assume(z3.Implies(clean_path(q), normpath_f(q) == q))
    # the last component of the result is '.' or '..' only if the last
    # component of the argument (trailing slashes ignored) is, or p is ''
    _hr, tr = split_last_slash(ctx, r)
    _hq, tq = split_last_slash(ctx, q)
    dot, dd = z3.StringVal('.'), z3.StringVal('..')
    ctx.assume(z3.Implies(z3.Or(tr == dot, tr == dd),
                          z3.Or(tq == dot, tq == dd, p == EMPTY)))
    # case split on the shape of the result so that later joins/dirnames
    # stay structural: '/', '//' or a path without trailing slash
    if ctx.ghost.get('normpath_no_shape_fork'):
        ctx.notes[key] = r
        return r
    d = ctx.fork([r == SLASH, r == z3.StringVal('//'),
                  z3.And(r != SLASH, r != z3.StringVal('//'))], 'normpath-shape')
    if d == 0:
        res = SLASH
    elif d == 1:
        res = z3.StringVal('//')
    else:
        mark_noendslash(ctx, r)
        # no '.' or empty last component survives
        _h, t = split_last_slash(ctx, r)
        ctx.assume(z3.Or(r == z3.StringVal('.'),
                         z3.And(t != EMPTY, t != z3.StringVal('.'))))
        ctx.assume(t != EMPTY)
        mark_nonempty(ctx, t)
        res = r
    ctx.notes[key] = res
    ctx.notes[('normpath', tid(res))] = res     # idempotent
    return res


def is_abs_clean(p):
    """absolute, normalised: what abspath/realpath return ('//x' keeps its
    two leading slashes, POSIX)"""
    sv = z3.StringVal
    rest = z3.SubString(p, 1, z3.Length(p) - 1)
    bad = z3.Or(z3.Contains(rest, sv('//')), z3.SuffixOf(SLASH, p),
                z3.SuffixOf(sv('/.'), p), z3.SuffixOf(sv('/..'), p),
                z3.Contains(p, sv('/./')), z3.Contains(p, sv('/../')))
    return z3.And(z3.PrefixOf(SLASH, p),
                  z3.Or(p == SLASH, p == sv('//'), z3.Not(bad)))


def abspath(ctx, p):
    r = abspath_f(p)
    key = ('abspath', tid(p))
    if key not in ctx.notes:
        ctx.notes[key] = True
        ctx.used_axioms.add('os.path.abspath axioms')
        ctx.assume(is_abs_clean(r))
        ctx.assume(z3.Implies(z3.And(z3.PrefixOf(SLASH, p), clean_path(p)),
                              r == p))
    return r


def realpath(ctx, sigma, p):
    r = realpath_f(sigma, p)
    key = ('realpath', tid(sigma), tid(p))
    if key not in ctx.notes:
        ctx.notes[key] = True
        ctx.used_axioms.add("os.path.realpath: absolute, normalised, no '//' "
                            "(the POSIX leading '//' spelling is not considered)")
        ctx.assume(z3.And(z3.PrefixOf(SLASH, r), clean_path(r)))
    return r


# re.escape(s): an opaque "literal pattern for s"; re.sub('^' + re.escape(x),
# repl, t) is then prefix replacement (pyvc/libmodels.py: lib_re_sub)
re_escape_f = z3.Function('re_escape', z3.StringSort(), z3.StringSort())
re_valid_f = z3.Function('re_valid', z3.StringSort(), z3.BoolSort())
re_sub_f = z3.Function('re_sub', z3.StringSort(), z3.StringSort(),
                       z3.StringSort(), z3.StringSort())
