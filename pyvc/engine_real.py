"""Run under /venv/bin/python with PYTHONPATH=<repo>: call repo functions on
concrete arguments (JSON list of [module, qualname, args] on stdin) and print
comparable results.  Used by validate.engine_differential."""
import datetime
import importlib
import json
import sys


def enc(r):
    if isinstance(r, (str, int, bool, type(None))):
        return r
    if isinstance(r, datetime.datetime):
        return 'datetime:' + r.strftime('%Y-%m-%dT%H:%M:%S')
    if isinstance(r, (list, tuple)):
        return [enc(x) for x in r]
    return 'obj:' + type(r).__name__


def main():
    jobs = json.load(sys.stdin)
    out = []
    for module, qualname, args in jobs:
        try:
            f = importlib.import_module(module)
            for p in qualname.split('.'):
                f = getattr(f, p)
            out.append({'result': enc(f(*args))})
        except BaseException as e:
            out.append({'exc': type(e).__name__})
    print(json.dumps(out))


main()
